#!/bin/bash
# Self-validation of the monitors: applies every mutant patch of selftest/mutants
# to a scratch worktree of /repo (under /tmp, removed afterwards), confirms the
# repository's pinned suite still passes there (the mutant is invisible to the
# existing tests), then runs the quick check of each property the mutant is
# aimed at and records whether it fired. Usage: selftest/run.sh [pattern] [tier]
set -u
ROOT="$(cd "$(dirname "${BASH_SOURCE[0]}")/.." && pwd)"
PAT="${1:-}"; TIER="${2:-quick}"
OUT="$ROOT/selftest/RESULTS.${TIER}.tsv"
: > "$OUT.tmp"
while read -r name props; do
  [ -n "$PAT" ] && [[ "$name" != *$PAT* ]] && continue
  WT="$(mktemp -d /tmp/verif-st.XXXXXX)"; rmdir "$WT"
  git -C /repo worktree add -q --detach "$WT" HEAD || exit 2
  if ! git -C "$WT" apply "$ROOT/selftest/mutants/$name.diff"; then echo "$name: patch does not apply"; git -C /repo worktree remove --force "$WT"; continue; fi
  if REPO="$WT" "$ROOT/baseline.sh" >/dev/null 2>&1; then suite=pass; else suite=FAIL; fi
  for p in $props; do
    t0=$(date +%s)
    VERIF_REPO="$WT" "$ROOT/run.sh" "$p" "$TIER" >"$WT.log" 2>&1; code=$?
    t1=$(date +%s)
    kind=$(grep -m1 -o 'kind=[^ ]*' "$WT.log" | head -1)
    printf '%s\t%s\t%s\t%s\t%s\t%ss\n' "$name" "$suite" "$p" "$code" "${kind:-none}" "$((t1-t0))" | tee -a "$OUT.tmp"
    rm -f "$WT.log"
  done
  git -C /repo worktree remove --force "$WT"
done < "$ROOT/selftest/mutants/INDEX"
mv "$OUT.tmp" "$OUT"
echo "--- summary ($TIER): $(awk -F'\t' '$4==1' "$OUT" | wc -l) detections / $(wc -l < "$OUT") runs; missed:"
awk -F'\t' '$4!=1' "$OUT"
