#!/usr/bin/env python3
"""Generates selftest/mutants/<name>.diff: small, compiling, realistic breakages
of go-cvss, each aimed at one property. Run from anywhere; needs /repo at the
fixed tree. Each entry: name, property ids expected to fire, list of
(file, old, new[, count]) textual replacements."""
import os, subprocess, sys, shutil, tempfile

HERE = os.path.dirname(os.path.abspath(__file__))
OUT = os.path.join(HERE, "mutants")

M = []
def mut(name, props, *edits):
    M.append((name, props, edits))

# ---------------- C01 / C13 parsing
mut("c01_v4_validate_case_insensitive", "C01",
    ("40/cvss40.go", "\t\tif value == enbl {\n\t\t\treturn i, nil", "\t\tif strings.EqualFold(value, enbl) {\n\t\t\treturn i, nil"))
mut("c01_v4_trailing_slash_tolerated", "C01",
    ("40/cvss40.go", "\tvector = vector[len(header):]\n", "\tvector = strings.TrimSuffix(vector[len(header):], \"/\")\n"))
mut("c01_v31_duplicate_MUI_allowed", "C01",
    ("31/cvss31.go", "\tcase \"MUI\":\n\t\tdst = &kvm.mui\n", "\tcase \"MUI\":\n\t\treturn nil\n"))
mut("c01_v2_group_check_removed", "C01",
    ("20/cvss20.go", "\tif i != 0 {\n\t\treturn nil, ErrTooShortVector\n\t}\n", "\tif i != 0 && slci == 0 {\n\t\treturn nil, ErrTooShortVector\n\t}\n"))
mut("c01_v4_base_complete_check_removed", "C01",
    ("40/cvss40.go", "\tif slci == 0 {\n\t\treturn nil, ErrTooShortVector\n\t}\n", "\tif slci == 0 && orderi < 8 {\n\t\treturn nil, ErrTooShortVector\n\t}\n"))
mut("c13_v30_header_prefix_relaxed", "C01 C13",
    ("30/cvss30.go", "\tif !strings.HasPrefix(vector, header) {\n\t\treturn nil, ErrInvalidCVSSHeader\n\t}\n", "\tif !strings.HasPrefix(vector, header[:7]) || len(vector) < len(header) || vector[8] != '/' {\n\t\treturn nil, ErrInvalidCVSSHeader\n\t}\n"))
mut("c13_v30_has_v31_header", "C01 C13",
    ("30/cvss30.go", "\theader = \"CVSS:3.0/\"", "\theader = \"CVSS:3.1/\""))
mut("c13_v2_skips_unknown_first_element", "C01",
    ("20/cvss20.go", "\tfor _, pt := range pts {\n\t\tabv, v, _ := strings.Cut(pt, \":\")\n", "\tfor pi, pt := range pts {\n\t\tabv, v, _ := strings.Cut(pt, \":\")\n\t\tif pi == 0 && len(pts) > 6 && abv == \"CVSS\" {\n\t\t\tcontinue\n\t\t}\n"))
# ---------------- C02 / C08 serialisation
mut("c02_v31_vector_prefix_typo_MPR", "C02 C08",
    ("31/cvss31.go", "notMandatory(&b, \"/MPR:\", cvss31.get(\"MPR\"))", "notMandatory(&b, \"/MRP:\", cvss31.get(\"MPR\"))"))
mut("c02_v4_vector_misses_RE", "C02 C08",
    ("40/cvss40.go", "\tnotMandatory(&b, \"/RE:\", cvss40.get(\"RE\"))\n", ""))
mut("c02_v2_temporal_group_only_if_all_defined", "C02 C08",
    ("20/cvss20.go", "\tif e != \"ND\" || rl != \"ND\" || rc != \"ND\" {\n\t\tapp(&b,", "\tif e != \"ND\" && rl != \"ND\" && rc != \"ND\" {\n\t\tapp(&b,"))
mut("c08_v31_MS_MC_swapped", "C08",
    ("31/cvss31.go", "\tnotMandatory(&b, \"/MS:\", cvss31.get(\"MS\"))\n\tnotMandatory(&b, \"/MC:\", cvss31.get(\"MC\"))\n", "\tnotMandatory(&b, \"/MC:\", cvss31.get(\"MC\"))\n\tnotMandatory(&b, \"/MS:\", cvss31.get(\"MS\"))\n"))
mut("c08_v2_env_group_dropped_if_CDP_ND", "C02 C08",
    ("20/cvss20.go", "\tif cdp != \"ND\" || td != \"ND\" || cr != \"ND\" || ir != \"ND\" || ar != \"ND\" {\n\t\tapp(&b,", "\tif cdp != \"ND\" {\n\t\tapp(&b,"))
mut("c08_v4_notMandatory_emits_X_for_U", "C08",
    ("40/cvss40.go", "\tnotMandatory(&b, \"/U:\", cvss40.get(\"U\"))", "\tmandatory(&b, \"/U:\", cvss40.get(\"U\"))"))
# ---------------- C03 v3 scoring
mut("c03_v31_RL_T_weight", "C03", ("31/cvss31.go", "\tcase rl_t:\n\t\treturn 0.96", "\tcase rl_t:\n\t\treturn 0.97"))
mut("c03_v30_PR_H_changed_weight", "C03", ("30/cvss30.go", "\t\tif scope == s_c {\n\t\t\treturn 0.5\n\t\t}", "\t\tif scope == s_c {\n\t\t\treturn 0.27\n\t\t}"))
mut("c03_v31_MISS_cap", "C03", ("31/cvss31.go", "(1-ar*cia(ma)), 0.915)", "(1-ar*cia(ma)), 0.9)"))
mut("c03_v30_uses_v31_modified_impact", "C03", ("30/cvss30.go", "3.25*pow15(miss-0.02)", "3.25*pow13(miss*0.9731-0.02)"),
    ("30/cvss30.go", "func pow15(f float64) float64 {", "func pow13(f float64) float64 {\n\tf2 := f * f\n\tf4 := f2 * f2\n\treturn f * f4 * f4 * f4\n}\n\nfunc pow15(f float64) float64 {"))
mut("c03_v31_roundup_modulus", "C03 C11", ("31/cvss31.go", "if int(bx)%10000 == 0 {", "if int(bx)%1000 == 0 {"))
mut("c03_v31_scope_factor_on_unchanged_env", "C03",
    ("31/cvss31.go", "\t\treturn roundup(roundup(math.Min(modifiedImpact+modifiedExploitability, 10)) * e * rl * rc)", "\t\treturn roundup(roundup(math.Min(1.08*(modifiedImpact+modifiedExploitability), 10)) * e * rl * rc)"))
mut("c03_v31_E_P_weight", "C03", ("31/cvss31.go", "\tcase e_p:\n\t\treturn 0.94", "\tcase e_p:\n\t\treturn 0.95"))
# ---------------- C04 v4 scoring
mut("c04_lookup_cell_plus_0_1", "C04", ("40/lookup.go", "\t\t\t\t\t\t\treturn 7.1\n", "\t\t\t\t\t\t\treturn 7.2\n", 1))
mut("c04_depth_eq4_level1", "C04", ("40/depth.go", "\t\tcase 1:\n\t\t\treturn 4 // checked by hand\n\t\tcase 2:\n\t\t\treturn 3 // checked by hand", "\t\tcase 1:\n\t\t\treturn 5 // checked by hand\n\t\tcase 2:\n\t\t\treturn 3 // checked by hand"))
mut("c04_max_vector_digit", "C04", ("40/max.go", "\t\t\t10212,  // VC:H/VI:L/VA:H/CR:M/IR:H/AR:M", "\t\t\t10211,  // VC:H/VI:L/VA:H/CR:M/IR:H/AR:M"))
mut("c04_eq3eq6_takes_smaller", "C04", ("40/cvss40.go", "\t\tif eq6nlm > eq3eq6nlm {", "\t\tif eq6nlm < eq3eq6nlm {"))
mut("c04_roundup_without_epsilon", "C04", ("40/cvss40.go", "\treturn math.Round((x+1e-6)*10) / 10", "\treturn math.Round(x*10) / 10"))
mut("c04_shortcut_on_base_bits", "C04 C10",
    ("40/cvss40.go", "\tif vcVal == vscia_n && viVal == vscia_n && vaVal == vscia_n &&\n\t\tscVal == vscia_n && siVal == vscia_n && saVal == vscia_n {", "\tif cvss40.u1 == 0b10101010 && (cvss40.u2&0b11110000) == 0b10100000 {"))
mut("c04_mean_divides_by_5", "C04", ("40/cvss40.go", ") / float64(lower)", ") / 5"))
mut("c12_lookup_cell_breaks_monotonicity", "C04 C12", ("40/lookup.go", "\t\t\t\t\t\t\treturn 9.5\n", "\t\t\t\t\t\t\treturn 9.9\n", 1))
# ---------------- C05 v2 scoring
mut("c05_CDP_LM_weight", "C05", ("20/cvss20.go", "\tcase cdp_lm:\n\t\treturn 0.3", "\tcase cdp_lm:\n\t\treturn 0.2"))
mut("c05_TD_decodes_wrong_bit", "C05", ("20/cvss20.go", "\ttd := targetDistribution(((cvss20.u2 & 0b00000001) << 2) | ((cvss20.u3 & 0b11000000) >> 6))", "\ttd := targetDistribution(((cvss20.u2 & 0b00000001) << 2) | ((cvss20.u3 & 0b10000000) >> 6))"))
mut("c05_adjusted_impact_min_removed", "C05 C11", ("20/cvss20.go", "\tadjustedImpact := math.Min(10, 10.41*(1-(1-c*cr)*(1-i*ir)*(1-a*ar)))", "\tadjustedImpact := math.Min(11, 10.41*(1-(1-c*cr)*(1-i*ir)*(1-a*ar)))"))
mut("c05_adjusted_impact_ignores_CR", "C05", ("20/cvss20.go", "(1-(1-c*cr)*(1-i*ir)*(1-a*ar))", "(1-(1-c*cr/cr)*(1-i*ir)*(1-a*ar))"))
mut("c05_Au_S_weight", "C05", ("20/cvss20.go", "\tcase au_s:\n\t\treturn 0.56", "\tcase au_s:\n\t\treturn 0.58"))
mut("c11_v2_round_times_0_1", "C11 C05", ("20/cvss20.go", "\treturn math.Round(x*10) / 10", "\treturn math.Round(x*10) * 0.1"))
# ---------------- C06 / C07 / C09 Get / Set
mut("c06_v31_MC_value_list_permuted", "C06 C07", ("31/cvss31.go", "\tcase \"MC\":\n\t\tv, err := validate(value, []string{\"X\", \"H\", \"L\", \"N\"})", "\tcase \"MC\":\n\t\tv, err := validate(value, []string{\"X\", \"N\", \"L\", \"H\"})"))
mut("c06_v4_Get_MVI_reads_neighbour", "C06 C07", ("40/cvss40.go", "\tcase \"MVI\":\n\t\tv := (cvss40.u5 & 0b01100000) >> 5", "\tcase \"MVI\":\n\t\tv := (cvss40.u5 & 0b00110000) >> 4"))
mut("c07_v31_I_mask_too_wide", "C07", ("31/cvss31.go", "\t\tcvss31.u1 = (cvss31.u1 & 0b10011111) | (v << 5)", "\t\tcvss31.u1 = (cvss31.u1 & 0b10001111) | (v << 5)"))
mut("c07_v4_MAC_literal", "C07", ("40/cvss40.go", "((v & 01) << 7)", "((v & 10) << 7)"))
mut("c07_v31_MA_keeps_own_high_bit", "C07", ("31/cvss31.go", "\t\tcvss31.u5 = (cvss31.u5 & 0b11000000) | (v << 4)", "\t\tcvss31.u5 = (cvss31.u5 & 0b11100000) | (v << 4)"))
mut("c07_v2_Set_RL_writes_before_validating", "C07",
    ("20/cvss20.go", "\tcase \"RL\":\n\t\tv, err := validate(value, []string{\"ND\", \"OF\", \"TF\", \"W\", \"U\"})\n\t\tif err != nil {\n\t\t\treturn err\n\t\t}\n", "\tcase \"RL\":\n\t\tv, err := validate(value, []string{\"ND\", \"OF\", \"TF\", \"W\", \"U\"})\n\t\tcvss20.u1 &= 0b11111110\n\t\tif err != nil {\n\t\t\treturn err\n\t\t}\n"))
mut("c07_v4_U_ors_into_u8", "C07", ("40/cvss40.go", "\t\tcvss40.u8 = (v & 0b011) << 6", "\t\tcvss40.u8 |= (v & 0b011) << 6"))
mut("c09_v4_PR_accepts_spare_value", "C09 C01", ("40/cvss40.go", "\tcase \"PR\":\n\t\tv, err := validate(value, []string{\"H\", \"L\", \"N\"})", "\tcase \"PR\":\n\t\tv, err := validate(value, []string{\"H\", \"L\", \"N\", \"X\"})"))
mut("c09_v31_Get_lowercase_alias", "C09", ("31/cvss31.go", "func (cvss31 CVSS31) Get(abv string) (r string, err error) {\n\tswitch abv {\n\t// Base\n\tcase \"AV\":", "func (cvss31 CVSS31) Get(abv string) (r string, err error) {\n\tswitch abv {\n\t// Base\n\tcase \"AV\", \"av\":"))
mut("c09_v31_Set_accepts_v4_AT", "C09", ("31/cvss31.go", "func (cvss31 *CVSS31) Set(abv string, value string) error {\n\tswitch abv {\n\t// Base\n\tcase \"AV\":", "func (cvss31 *CVSS31) Set(abv string, value string) error {\n\tswitch abv {\n\t// Base\n\tcase \"AT\":\n\t\tif value != \"N\" && value != \"P\" {\n\t\t\treturn ErrInvalidMetricValue\n\t\t}\n\tcase \"AV\":"))
# ---------------- C10
mut("c10_v31_MUI_resolved_from_base", "C10 C03", ("31/cvss31.go", "\tmui := mod((cvss31.u0&0b00000100)>>2, (cvss31.u4&0b00110000)>>4)", "\tmui := (cvss31.u0 & 0b00000100) >> 2"))
mut("c10_v4_macrovector_base_SA", "C10 C04", ("40/cvss40.go", "\tsa := mod((cvss40.u2&0b00110000)>>4, msa)", "\tsa := (cvss40.u2 & 0b00110000) >> 4"))
mut("c10_v4_E_X_treated_as_U", "C10 C04", ("40/cvss40.go", "\tif e == e_a || e == e_x { // check if X too, worst case is lower value\n\t\teq5 = 0\n\t} else if e == e_p {\n\t\teq5 = 1\n\t} else if e == e_u {", "\tif e == e_a {\n\t\teq5 = 0\n\t} else if e == e_p {\n\t\teq5 = 1\n\t} else if e == e_u || e == e_x {"))
mut("c10_v30_CR_X_weight", "C10 C03", ("30/cvss30.go", "\tcase ciar_x, ciar_m:\n\t\treturn 1", "\tcase ciar_m:\n\t\treturn 1\n\tcase ciar_x:\n\t\treturn 1.5"))
# ---------------- C14
mut("c14_v2_pool_put_before_loop", "C14", ("20/cvss20.go", "\tpartsPtr := splitPool.Get()\n\tdefer splitPool.Put(partsPtr)\n\tpts := partsPtr.([]string)\n\tei := split(pts, vector)\n\tpts = pts[:ei+1]\n", "\tpartsPtr := splitPool.Get()\n\tpts := partsPtr.([]string)\n\tei := split(pts, vector)\n\tpts = pts[:ei+1]\n\tsplitPool.Put(partsPtr)\n"))
mut("c14_v2_live_part_not_bounded", "C14 C01", ("20/cvss20.go", "\tpts = pts[:ei+1]\n", "\t_ = ei\n"))
mut("c14_v31_vector_buffer_pooled", "C14 C17",
    ("31/cvss31.go", "\tl := lenVec(&cvss31)\n\tb := make([]byte, 0, l)\n", "\tl := lenVec(&cvss31)\n\tbp := vecPool.Get().(*[]byte)\n\tdefer vecPool.Put(bp)\n\tb := (*bp)[:0]\n\tif cap(b) < l {\n\t\tb = make([]byte, 0, 256)\n\t\t*bp = b\n\t}\n"),
    ("31/cvss31.go", "import (\n\t\"math\"\n\t\"strings\"\n\t\"unsafe\"\n)\n", "import (\n\t\"math\"\n\t\"strings\"\n\t\"sync\"\n\t\"unsafe\"\n)\n\nvar vecPool = sync.Pool{New: func() any { b := make([]byte, 0, 256); return &b }}\n"))
mut("c14_v4_score_cache_map", "C14",
    ("40/cvss40.go", "func (cvss40 *CVSS40) Score() float64 {\n", "var scoreCache = map[CVSS40]float64{}\n\nfunc (cvss40 *CVSS40) Score() float64 {\n\tif s, ok := scoreCache[*cvss40]; ok {\n\t\treturn s\n\t}\n\ts := cvss40.score()\n\tif len(scoreCache) < 1024 {\n\t\tscoreCache[*cvss40] = s\n\t}\n\treturn s\n}\n\nfunc (cvss40 *CVSS40) score() float64 {\n"))
mut("c14_v31_package_level_kvm", "C14",
    ("31/cvss31.go", "\t// Parse vector\n\tkvm := kvm{}\n", "\t// Parse vector\n\tscratchKvm = kvm{}\n\tkvm := &scratchKvm\n"),
    ("31/cvss31.go", "type kvm struct {", "var scratchKvm kvm\n\ntype kvm struct {"))
mut("c14_v31_shared_error_instance", "C14",
    ("31/cvss31.go", "\tdefault:\n\t\treturn &ErrInvalidMetric{Abv: abv}\n\t}\n\tif *dst {", "\tdefault:\n\t\tsharedInvalid.Abv = abv\n\t\treturn sharedInvalid\n\t}\n\tif *dst {"),
    ("31/cvss31.go", "type kvm struct {", "var sharedInvalid = &ErrInvalidMetric{}\n\ntype kvm struct {"))
mut("c14_v4_parse_returns_pooled_object", "C14",
    ("40/cvss40.go", "\tcvss40 := &CVSS40{\n", "\tcvss40 := lastParsed\n\tif parses++; parses%64 != 0 {\n\t\tcvss40 = &CVSS40{}\n\t\tlastParsed = cvss40\n\t}\n\t*cvss40 = CVSS40{\n"),
    ("40/cvss40.go", "// ParseVector parses a given vector string, validates it\n// and returns a CVSS31.\nfunc ParseVector(vector string) (*CVSS40, error) {", "var (\n\tlastParsed = &CVSS40{}\n\tparses     int\n)\n\n// ParseVector parses a given vector string, validates it\n// and returns a CVSS31.\nfunc ParseVector(vector string) (*CVSS40, error) {"))
# ---------------- C15
mut("c15_v31_high_threshold_exclusive", "C15", ("31/cvss31.go", "\tif score >= 7.0 {", "\tif score > 7.0 {"))
mut("c15_v4_ten_rejected", "C15 C11", ("40/cvss40.go", "\tif score < 0.0 || score > 10.0 {\n\t\treturn \"\", ErrOutOfBoundsScore\n\t}\n\tif score >= 9.0 {", "\tif score < 0.0 || score >= 10.0 {\n\t\treturn \"\", ErrOutOfBoundsScore\n\t}\n\tif score >= 9.0 {"))
mut("c15_v30_low_bound_gt_zero", "C15", ("30/cvss30.go", "\tif score >= 0.1 {", "\tif score > 0 {"))
# ---------------- C16
mut("c16_u5_dropped", "C16", ("40/cvss40.go", "\t\tcvss40.u3 != 0 || cvss40.u4 != 0 || cvss40.u5 != 0 ||", "\t\tcvss40.u3 != 0 || cvss40.u4 != 0 ||"))
mut("c16_u6_mask_includes_S", "C16", ("40/cvss40.go", "\t\t(cvss40.u6&0b11111000) != 0\n", "\t\t(cvss40.u6&0b11111110) != 0\n"))
mut("c16_t_reads_CR_bits", "C16", ("40/cvss40.go", "\tt := (cvss40.u2 & 0b00001100) != 0\n", "\tt := (cvss40.u2 & 0b00001111) != 0\n"))
# ---------------- C17
mut("c17_v4_lenVec_undercounts_MAT", "C17", ("40/cvss40.go", "\tif (cvss40.u4 & 0b01100000) != 0 {\n\t\tl += 6\n\t}", "\tif (cvss40.u4 & 0b01100000) != 0 {\n\t\tl += 5\n\t}"))
mut("c17_v31_illegal_value_error_wrapped", "C17", ("31/cvss31.go", "\treturn 0, ErrInvalidMetricValue\n}", "\treturn 0, fmt.Errorf(\"%w: %s\", ErrInvalidMetricValue, value)\n}"),
    ("31/cvss31.go", "import (\n\t\"math\"\n", "import (\n\t\"fmt\"\n\t\"math\"\n"))
mut("c17_v2_uses_strings_SplitN", "C17", ("20/cvss20.go", "\tpartsPtr := splitPool.Get()\n\tdefer splitPool.Put(partsPtr)\n\tpts := partsPtr.([]string)\n\tei := split(pts, vector)\n\tpts = pts[:ei+1]\n", "\tpts := strings.SplitN(vector, \"/\", 14)\n"))
mut("c17_v4_lenVec_U_clear", "C17", ("40/cvss40.go", "\tcase u_clear, u_green, u_amber:\n\t\tl += 8", "\tcase u_green, u_amber:\n\t\tl += 8\n\tcase u_clear:\n\t\tl += 6"))
# ---------------- C18
mut("c18_v31_duplicate_S_reports_invalid_metric", "C18",
    ("31/cvss31.go", "\tif *dst {\n\t\treturn &ErrDefinedN{Abv: abv}\n\t}", "\tif *dst {\n\t\tif abv == \"S\" {\n\t\t\treturn &ErrInvalidMetric{Abv: abv}\n\t\t}\n\t\treturn &ErrDefinedN{Abv: abv}\n\t}"))
mut("c18_v31_missing_checks_reordered", "C18",
    ("31/cvss31.go", "\tif !kvm.av {\n\t\treturn nil, &ErrMissing{Abv: \"AV\"}\n\t}\n\tif !kvm.ac {\n\t\treturn nil, &ErrMissing{Abv: \"AC\"}\n\t}\n", "\tif !kvm.ac {\n\t\treturn nil, &ErrMissing{Abv: \"AC\"}\n\t}\n\tif !kvm.av {\n\t\treturn nil, &ErrMissing{Abv: \"AV\"}\n\t}\n"))
mut("c18_v4_too_short_reports_order", "C18", ("40/cvss40.go", "\tif slci == 0 {\n\t\treturn nil, ErrTooShortVector\n\t}", "\tif slci == 0 {\n\t\treturn nil, ErrInvalidMetricOrder\n\t}"))
mut("c18_v2_order_reports_too_short", "C18", ("20/cvss20.go", "\t\tif abv != tgt {\n\t\t\treturn nil, ErrInvalidMetricOrder\n\t\t}", "\t\tif abv != tgt {\n\t\t\tif slci == 2 {\n\t\t\t\treturn nil, ErrTooShortVector\n\t\t\t}\n\t\t\treturn nil, ErrInvalidMetricOrder\n\t\t}"))
mut("c18_v4_Get_default_returns_sentinel", "C18", ("40/cvss40.go", "\tdefault:\n\t\terr = &ErrInvalidMetric{Abv: abv}\n\t}\n\treturn\n}", "\tdefault:\n\t\terr = ErrInvalidMetricValue\n\t}\n\treturn\n}"))
mut("c18_v30_missing_names_wrong_metric", "C18", ("30/cvss30.go", "\t\treturn nil, &ErrMissing{Abv: \"UI\"}", "\t\treturn nil, &ErrMissing{Abv: \"PR\"}"))

def main():
    os.makedirs(OUT, exist_ok=True)
    for f in os.listdir(OUT):
        os.remove(os.path.join(OUT, f))
    wt = tempfile.mkdtemp(prefix="verif-mut-", dir="/tmp")
    os.rmdir(wt)
    subprocess.check_call(["git", "-C", "/repo", "worktree", "add", "-q", "--detach", wt, "HEAD"])
    idx = []
    try:
        for name, props, edits in M:
            for e in edits:
                path, old, new = e[0], e[1], e[2]
                cnt = e[3] if len(e) > 3 else None
                p = os.path.join(wt, path)
                s = open(p).read()
                if old not in s:
                    print("MUTANT %s: pattern not found in %s" % (name, path)); sys.exit(1)
                if cnt is None and s.count(old) != 1:
                    print("MUTANT %s: pattern occurs %d times in %s" % (name, s.count(old), path)); sys.exit(1)
                s = s.replace(old, new, 1)
                open(p, "w").write(s)
            r = subprocess.run(["go", "build", "./..."], cwd=wt, capture_output=True, text=True, env=dict(os.environ, GOFLAGS="", GOWORK="off"))
            if r.returncode != 0:
                print("MUTANT %s does not compile:\n%s" % (name, r.stderr)); sys.exit(1)
            d = subprocess.check_output(["git", "-C", wt, "diff"], text=True)
            open(os.path.join(OUT, name + ".diff"), "w").write(d)
            idx.append("%s %s" % (name, props))
            subprocess.check_call(["git", "-C", wt, "checkout", "-q", "--", "."])
        open(os.path.join(OUT, "INDEX"), "w").write("\n".join(idx) + "\n")
        print("%d mutants written to %s" % (len(idx), OUT))
    finally:
        subprocess.call(["git", "-C", "/repo", "worktree", "remove", "--force", wt])

if __name__ == "__main__":
    main()
