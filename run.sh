#!/bin/bash
# Single entry point of every check:   ./run.sh <ID> <quick|thorough>
#                                      ./run.sh --replay <replay file>
# Rebuilds the harness against /repo's CURRENT working tree (module replace),
# runs the check in a child process and converts its outcome:
#   0 held | 1 VIOLATION | 3 inconclusive | 4 broken check (build / oracle self-test / harness bug)
# A child killed by a Go runtime fatal error (exit 2) or a signal is a
# violation: "no exported function brings the process down" (stderr kept as replay).
set -u
ROOT="$(cd "$(dirname "${BASH_SOURCE[0]}")" && pwd)"
export VERIF_ROOT="$ROOT"
export GOFLAGS=-mod=mod GOPROXY=off GOSUMDB=off GOTOOLCHAIN=local GOWORK=off
export VERIF_REPO="${VERIF_REPO:-/repo}"
BIN="$ROOT/.bin"
mkdir -p "$BIN" "$ROOT/evidence" "$ROOT/replays"
cd "$ROOT/harness" || exit 4
if [ "$VERIF_REPO" != "/repo" ]; then
  # run against another tree (self-validation on scratch copies): private modfile
  MODF="$BIN/go.alt.$$.mod"
  sed "s#=> /repo#=> $VERIF_REPO#" go.mod > "$MODF"; cp go.sum "${MODF%.mod}.sum"
  MODARG="-modfile=$MODF"
  trap 'rm -f "$MODF" "${MODF%.mod}.sum"' EXIT
else
  MODARG=""
fi
build() { # build <output> <extra go build flags...>
  local out="$1"; shift
  if ! go build $MODARG "$@" -o "$out" ./cmd/verif 2>"$BIN/build.err"; then
    echo "BROKEN: harness does not build against $VERIF_REPO:" >&2; cat "$BIN/build.err" >&2; exit 4
  fi
}
if [ "${1:-}" = "--replay" ]; then
  build "$BIN/verif"; exec "$BIN/verif" --replay "$2"
fi
ID="${1:?usage: run.sh <ID> <quick|thorough>}"; TIER="${2:-quick}"
build "$BIN/verif"
ERR="$ROOT/replays/$ID.stderr"
rm -f "$ERR"
"$BIN/verif" "$ID" "$TIER" 2>"$ERR"
code=$?
case $code in
  0|1|3|4) [ -s "$ERR" ] && cat "$ERR" >&2; [ $code -eq 0 ] && rm -f "$ERR"; exit $code ;;
  137) echo "INCONCLUSIVE: check process was killed (SIGKILL / out of memory)" >&2; cat "$ERR" >&2; exit 3 ;;
  *) mkdir -p "$ROOT/replays/$ID"; mv "$ERR" "$ROOT/replays/$ID/process-died.log"
     tail -n 40 "$ROOT/replays/$ID/process-died.log" >&2
     echo "VIOLATION property=$ID replay=$ROOT/replays/$ID/process-died.log"
     echo "  kind=process-died exit=$code (Go runtime fatal error or signal while executing go-cvss under the workload; rerun with the same VERIF_SEED to reproduce)"
     exit 1 ;;
esac
