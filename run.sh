#!/bin/bash
# Single entry point of every check:   ./run.sh <ID> <quick|thorough>
#                                      ./run.sh --replay <replay file>
# Rebuilds the harness against /repo's CURRENT working tree (module replace),
# runs the check in a child process and converts its outcome:
#   0 held | 1 VIOLATION | 3 inconclusive | 4 broken check (build / oracle self-test / harness bug)
# A child killed by a Go runtime fatal error (exit 2) or a signal is a
# violation: "no exported function brings the process down" (stderr kept as replay).
set -u
ROOT="$(cd "$(dirname "${BASH_SOURCE[0]}")" && pwd)"
if [ "${1:-}" = "--replay" ] && [ -n "${2:-}" ]; then REPLAY_FILE="$(cd "$(dirname "$2")" 2>/dev/null && pwd)/$(basename "$2")"; fi
export VERIF_ROOT="$ROOT"
export GOFLAGS=-mod=mod GOPROXY=off GOSUMDB=off GOTOOLCHAIN=local GOWORK=off
export VERIF_REPO="${VERIF_REPO:-/repo}"
BIN="$ROOT/.bin"
mkdir -p "$BIN" "$ROOT/evidence" "$ROOT/replays"
cd "$ROOT/harness" || exit 4
# keep the harness's go.sum a superset of the repository's (a new dependency of go-cvss must not break the build)
if [ -f "$VERIF_REPO/go.sum" ] && ! sort -u go.sum "$VERIF_REPO/go.sum" | cmp -s - <(sort -u go.sum); then
  sort -u go.sum "$VERIF_REPO/go.sum" -o go.sum
fi
ALTBIN=""
if [ "$VERIF_REPO" != "/repo" ]; then
  export VERIF_EVIDENCE_DIR="$BIN/evidence-scratch"   # never overwrite /verif/evidence from a scratch tree
  # private binaries, so that a run against a scratch tree never swaps the binary under a check running against /repo
  ALTBIN="$BIN/alt.$$"; mkdir -p "$ALTBIN"; BIN="$ALTBIN"
  # run against another tree (self-validation on scratch copies): private modfile
  MODF="$BIN/go.alt.$$.mod"
  sed "s#=> /repo#=> $VERIF_REPO#" go.mod > "$MODF"; cp go.sum "${MODF%.mod}.sum"
  MODARG="-modfile=$MODF"
  trap 'rm -rf "$MODF" "${MODF%.mod}.sum" "$ALTBIN"' EXIT
else
  MODARG=""
fi
build() { # build <output> <extra go build flags...>
  local out="$1"; shift
  if ! go build $MODARG "$@" -o "$out" ./cmd/verif 2>"$BIN/build.err"; then
    echo "BROKEN: harness does not build against $VERIF_REPO:" >&2; cat "$BIN/build.err" >&2; exit 4
  fi
}
if [ "${1:-}" = "--replay" ]; then
  build "$BIN/verif"; "$BIN/verif" --replay "${REPLAY_FILE:-$2}"; exit $?
fi
ID="${1:?usage: run.sh <ID> <quick|thorough>}"; TIER="${2:-quick}"
# fingerprint of the tree under test: a verdict is only meaningful if every binary was built from the same tree
treeprint() { (git -C "$VERIF_REPO" rev-parse HEAD 2>/dev/null; git -C "$VERIF_REPO" diff HEAD 2>/dev/null; git -C "$VERIF_REPO" status --porcelain 2>/dev/null) | cksum; }
TREE0="$(treeprint)"
build "$BIN/verif"
if [ "$ID" = "C14" ]; then
  # C14 needs three (thorough: four) builds of the CURRENT tree
  export VERIF_BIN_PLAIN="$BIN/verif" VERIF_BIN_RACE="$BIN/verif-race" VERIF_BIN_RACE_INSTR="$BIN/verif-race-instr" VERIF_BIN_ASAN="$BIN/verif-asan"
  build "$VERIF_BIN_RACE" -race
  # yield-point pass on a scratch copy of the current tree (outside /repo and /verif), removed right after the build
  SCR="$(mktemp -d /tmp/verif-instr.XXXXXX)"
  trap 'rm -rf "$SCR" "${MODF:-}" "${MODF:+${MODF%.mod}.sum}" ${ALTBIN:+"$ALTBIN"}' EXIT
  PTS="$("$BIN/verif" instr "$VERIF_REPO" "$SCR")" || { echo "BROKEN: yield-point pass failed: $PTS" >&2; exit 4; }
  export VERIF_INSTR_POINTS="$PTS"
  IMOD="$BIN/go.instr.$$.mod"
  sed "s#=> /repo#=> $SCR#" go.mod > "$IMOD"; cp go.sum "${IMOD%.mod}.sum"
  if ! go build -modfile="$IMOD" -race -o "$VERIF_BIN_RACE_INSTR" ./cmd/verif 2>"$BIN/build.err"; then
    echo "BROKEN: instrumented copy does not build:" >&2; cat "$BIN/build.err" >&2; rm -f "$IMOD" "${IMOD%.mod}.sum"; exit 4
  fi
  rm -rf "$SCR" "$IMOD" "${IMOD%.mod}.sum"
  if [ "$TIER" = "thorough" ]; then build "$VERIF_BIN_ASAN" -asan; fi
fi
ERR="$ROOT/replays/$ID.stderr"
rm -f "$ERR"
"$BIN/verif" "$ID" "$TIER" 2>"$ERR"
code=$?
if [ "$(treeprint)" != "$TREE0" ]; then
  echo "INCONCLUSIVE: $VERIF_REPO changed while the check was building or running; rerun on a quiescent tree" >&2
  exit 3
fi
case $code in
  0|1|3|4) [ -s "$ERR" ] && cat "$ERR" >&2; [ $code -eq 0 ] && rm -f "$ERR"; exit $code ;;
  137) echo "INCONCLUSIVE: check process was killed (SIGKILL / out of memory)" >&2; cat "$ERR" >&2; exit 3 ;;
  *) mkdir -p "$ROOT/replays/$ID"; mv "$ERR" "$ROOT/replays/$ID/process-died.log"
     tail -n 40 "$ROOT/replays/$ID/process-died.log" >&2
     echo "VIOLATION property=$ID replay=$ROOT/replays/$ID/process-died.log"
     echo "  kind=process-died exit=$code (Go runtime fatal error or signal while executing go-cvss under the workload; rerun with the same VERIF_SEED to reproduce)"
     exit 1 ;;
esac
