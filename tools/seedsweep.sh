#!/bin/bash
# tools/seedsweep.sh [tier] [seed]: re-applies every archived seeded change to a scratch worktree (removed afterwards)
# and runs the checks recorded as catching it; prints name, check, exit (1 = caught).
TIER=${1:-quick}; export VERIF_SEED=${2:-1}
ROOT="$(cd "$(dirname "${BASH_SOURCE[0]}")/.." && pwd)"
OUT="$ROOT/seeded/RESULTS.$TIER.tsv"; : > "$OUT.tmp"
for d in "$ROOT"/seeded/*/; do
  n=$(basename "$d"); [ -f "$d/patch.diff" ] || continue
  WT=$(mktemp -d /tmp/verif-seed.XXXXXX); rmdir "$WT"
  git -C /repo worktree add -q --detach "$WT" HEAD || exit 2
  git -C "$WT" apply "$d/patch.diff" || { echo "$n: patch does not apply"; git -C /repo worktree remove --force "$WT"; continue; }
  for c in $(python3 -c "import json;print(' '.join(json.load(open('$d/meta.json'))['caught_by_quick_checks']))"); do
    VERIF_REPO="$WT" "$ROOT/run.sh" $c $TIER > "$WT.log" 2>&1; code=$?
    printf '%s\t%s\t%s\t%s\n' "$n" "$c" "$code" "$(grep -c VIOLATION "$WT.log")" | tee -a "$OUT.tmp"
    rm -f "$WT.log"
  done
  git -C /repo worktree remove --force "$WT"
done
mv "$OUT.tmp" "$OUT"
echo "--- not caught:"; awk -F'\t' '$3!=1' "$OUT"
