#!/bin/bash
# tools/sweep.sh <tier> "<seeds>" [ids...]: runs checks on the unchanged tree and prints id seed exit seconds (silence / timing sweeps)
TIER=${1:-quick}; SEEDS=${2:-1}; shift 2
IDS=${*:-C01 C02 C03 C04 C05 C06 C07 C08 C09 C10 C11 C12 C13 C14 C15 C16 C17 C18}
ROOT="$(cd "$(dirname "${BASH_SOURCE[0]}")/.." && pwd)"
for s in $SEEDS; do for id in $IDS; do
  t0=$(date +%s); VERIF_SEED=$s "$ROOT/run.sh" $id $TIER > /tmp/sweep.$$.log 2>&1; code=$?; t1=$(date +%s)
  echo "$id seed=$s tier=$TIER exit=$code $((t1-t0))s $(grep -c VIOLATION /tmp/sweep.$$.log) violations; $(tail -1 /tmp/sweep.$$.log | cut -c1-150)"
  [ $code -ne 0 ] && grep -E "VIOLATION|INCONCLUSIVE|BROKEN" /tmp/sweep.$$.log | head -5
done; done; rm -f /tmp/sweep.$$.log
