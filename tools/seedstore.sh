#!/bin/bash
# tools/seedstore.sh <ID> <name> <caught-by> <needs...>: archive a verified seeded change under /verif/seeded/<name>/ and remove its scratch worktree
ID=$1; NAME=$2; CAUGHT=$3; shift 3; NEEDS="$*"
D=/verif/seeded/$NAME; mkdir -p $D
git -C /tmp/seed-$ID diff > $D/patch.diff
cp /tmp/seed-$ID-demo/demo_test.go /tmp/seed-$ID-demo/NOTES.md $D/ 2>/dev/null
sed "s#/tmp/seed-$ID#/repo#" /tmp/seed-$ID-demo/go.mod > $D/go.mod
python3 - "$ID" "$NAME" "$CAUGHT" "$NEEDS" <<'PY'
import json,sys
pid,name,caught,needs=sys.argv[1:5]
json.dump({"property":pid,"name":name,"source":"independent sub-agent given only the property text and a scratch worktree",
 "needs_to_manifest":needs,
 "verified":["pinned suite on changed tree: 184/184 stable tests pass (baseline.sh)","demo_test.go fails with the change, passes without it (tools/seedcheck.sh)"],
 "caught_by_quick_checks":caught.split(),
 "how_to_rerun":"git -C /repo apply /verif/seeded/%s/patch.diff && ./run.sh <check> quick; git -C /repo checkout -- ."%name},
 open('/verif/seeded/%s/meta.json'%name,'w'),indent=1)
PY
git -C /repo worktree remove --force /tmp/seed-$ID; rm -rf /tmp/seed-$ID-demo
echo stored $D
