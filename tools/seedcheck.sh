#!/bin/bash
# tools/seedcheck.sh <ID> <check ids...>: verify a sub-agent's seeded change in /tmp/seed-<ID> (+ /tmp/seed-<ID>-demo)
# NOT to be run in parallel with another run.sh (one harness binary under .bin).
# independently: baseline passes, demo fails with the change and passes without it, then run the given checks on it.
ID=$1; shift
WT=/tmp/seed-$ID; DEMO=/tmp/seed-$ID-demo
export GOPROXY=off GOSUMDB=off GOTOOLCHAIN=local
echo "== $ID: diff stat"; git -C $WT diff --stat | tail -3
echo "== baseline on changed tree"; REPO=$WT /verif/baseline.sh
RACE=""; grep -qi -- "-race" $DEMO/NOTES.md 2>/dev/null && RACE="-race"
echo "== demo WITH change (expect FAIL)"; (cd $DEMO && GOFLAGS=-mod=mod GOWORK=off go test -count=1 $RACE ./... 2>&1 | tail -3)
git -C $WT diff > $DEMO/.seedcheck.patch; git -C $WT checkout -- .   # not "git stash": the stash is shared by all worktrees of a repository
echo "== demo WITHOUT change (expect ok)"; (cd $DEMO && GOFLAGS=-mod=mod GOWORK=off go test -count=1 $RACE ./... 2>&1 | tail -3)
git -C $WT apply $DEMO/.seedcheck.patch && rm -f $DEMO/.seedcheck.patch
for c in "$@"; do
  echo "== check $c quick on changed tree"; VERIF_REPO=$WT /verif/run.sh $c quick 2>&1 | grep -E "VIOLATION|kind=|held|inconclusive|BROKEN|KNOWN" | head -4
done
