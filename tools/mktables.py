#!/usr/bin/env python3
"""Regenerates the catch tables of DESIGN.md section 6.5 from seeded/*/meta.json and selftest/RESULTS.quick.tsv."""
import json, glob, os, re, collections
ROOT = os.path.dirname(os.path.dirname(os.path.abspath(__file__)))
out = []
out.append("### 6.5 Which checks catch which changes\n")
metas = [json.load(open(d)) for d in sorted(glob.glob(os.path.join(ROOT, "seeded", "*", "meta.json")))]
uncaught = [m["name"] for m in metas if not m["caught_by_quick_checks"]]
out.append("Independent seeded changes (all invisible to the 184 pinned tests). %d archived, %d caught by the quick tier; NOT caught: %s (see 6.4).\n" % (len(metas), len(metas) - len(uncaught), ", ".join("`%s`" % u for u in uncaught) or "none"))
out.append("| seeded change | property | needs, to manifest | caught by (quick) |")
out.append("|---|---|---|---|")
for d in sorted(glob.glob(os.path.join(ROOT, "seeded", "*", "meta.json"))):
    m = json.load(open(d))
    out.append("| `%s` | %s | %s | %s |" % (m["name"], m["property"], m["needs_to_manifest"].replace("|", "/"), " ".join(m["caught_by_quick_checks"]) or "**none**"))
res = os.path.join(ROOT, "selftest", "RESULTS.quick.tsv")
if os.path.exists(res):
    rows = [l.rstrip("\n").split("\t") for l in open(res) if l.strip()]
    by = collections.OrderedDict()
    for name, suite, prop, code, kind, secs in rows:
        by.setdefault(name, {"suite": suite, "runs": []})["runs"].append((prop, code, kind))
    det = sum(1 for r in rows if r[3] == "1")
    invisible = sum(1 for v in by.values() if v["suite"] == "pass")
    out.append("")
    out.append("Self-made mutants (`selftest/`): %d mutants, %d of them invisible to the pinned suite (suite column `pass`); %d of %d (mutant, targeted check) runs detected. `exit` 1 = VIOLATION reported by the quick tier.\n" % (len(by), invisible, det, len(rows)))
    out.append("| mutant | pinned suite | check: exit (first violation kind) |")
    out.append("|---|---|---|")
    for name, v in by.items():
        out.append("| `%s` | %s | %s |" % (name, v["suite"], "; ".join("%s: %s (%s)" % (p, c, k.replace("kind=", "")) for p, c, k in v["runs"])))
    missed = [r for r in rows if r[3] != "1"]
    out.append("")
    if missed:
        out.append("Not detected: " + ", ".join("`%s`/%s" % (r[0], r[2]) for r in missed) + " -- see 6.3.")
    else:
        out.append("Not detected: none.")
text = "\n".join(out) + "\n"
p = os.path.join(ROOT, "DESIGN.md")
s = open(p).read()
B, E = "<!-- TABLES:BEGIN -->", "<!-- TABLES:END -->"
if B in s:
    s = s[:s.index(B) + len(B)] + "\n" + text + s[s.index(E):]
else:
    i = s.index("## Appendix A")
    s = s[:i] + B + "\n" + text + E + "\n\n" + s[i:]
open(p, "w").write(s)
print("tables written:", len(out), "lines")
