#!/usr/bin/env python3
"""Generates /verif/MANIFEST.json from the table below (single source of truth)."""
import json, os, sys
ROOT = os.path.dirname(os.path.dirname(os.path.abspath(__file__)))

ORACLE = "runtime monitoring: generated workload through a recording shim at the exported API, judged online by a reference-model oracle"
CHECKS = {
 "C01": dict(tech=ORACLE + " (naive grammar recogniser); complete edit-distance-1 neighbourhoods + hostile mutation stream",
   text="Every generated string is offered to the four real parsers and to an independent naive recogniser; any accept/reject disagreement, contract breach ((nil,nil)/(obj,err)) or panic is a violation. Exploration of an infinite language: complete edit-distance-1 neighbourhoods of anchor vectors, pairwise covering sets, 26 hostile mutation operators, soup and random bytes.",
   note="trusts the transcription of the grammar in harness/spec/grammar.go; strings far from any valid vector are only sampled", ref="3 C01"),
 "C06": dict(tech=ORACLE + " (metric map read by the recogniser) on every Get after every accepted parse",
   text="For every accepted string of the stream, Get of every metric is compared with what the string says (explicit value or not-defined default); floor: every (metric,value) explicit and every optional metric omitted at least once.",
   note="trusts the recogniser's reading of an accepted string", ref="3 C06"),
 "C08": dict(tech=ORACLE + " (canonicaliser) on Vector() after every accepted parse, plus idempotence",
   text="For every accepted string, ParseVector(s).Vector() must equal the independent canonicaliser's output and be a fixed point of parse-then-serialise; non-canonical spellings are over-represented.",
   note="trusts Canonical() in harness/spec/grammar.go", ref="3 C08"),
 "C13": dict(tech="runtime monitoring: every string and every Vector() output cross-offered to all four parsers; at-most-one-acceptor monitor",
   text="The whole hostile string stream incl. header variants x bodies and cross-version bodies goes to all four parsers; two acceptors, or a Vector() accepted by a foreign parser or rejected by its own, is a violation.",
   note="no model needed (cross comparison)", ref="3 C13"),
}
NOT_YET = {}
props = [json.loads(l)["id"] for l in open(os.path.join(ROOT, "properties.jsonl"))]
checks = []
for pid in props:
    if pid not in CHECKS: continue
    c = CHECKS[pid]
    checks.append({
        "property_id": pid,
        "quick_cmd": "./run.sh %s quick" % pid,
        "thorough_cmd": "./run.sh %s thorough" % pid,
        "evidence_file": "/verif/evidence/%s.json" % pid,
        "replay_cmd_template": "./run.sh --replay {path}",
        "engine": "verifharness",
        "level_claimed": {"category": "exploration", "text": c["text"], "design_ref": "DESIGN.md section " + c["ref"]},
        "level_note": c["note"],
        "technique": c["tech"],
    })
na = [{"property_id": p, "reason": NOT_YET.get(p, "check not built yet in this revision (planned, see DESIGN.md section 3)")} for p in props if p not in CHECKS]
man = {
 "version": 1,
 "setup_cmd": "./setup.sh",
 "hooks": {"guard": "verif", "enable": "none needed: all observation is at the exported API; the harness module links /repo through a go.mod replace directive and is rebuilt by run.sh on every invocation",
           "baseline_off_cmd": "/verif/baseline.sh", "source_commits": [], "add_only": True},
 "engines": [{"name": "verifharness", "path": "/verif/harness", "serves_properties": sorted(CHECKS), "kind_free_text": "Go module: reference-model oracles (spec/), workload generators (gen/), recording shim (probe/), online monitors (mon/), driver (cmd/verif); entry point /verif/run.sh"}],
 "checks": checks,
 "not_applicable": na,
 "notes": "Exit codes of run.sh: 0 held, 1 violation (VIOLATION line + replay file), 3 inconclusive (watchdog / coverage floor not reached), 4 broken check. Known findings: /verif/known_findings.json.",
}
json.dump(man, open(os.path.join(ROOT, "MANIFEST.json"), "w"), indent=1)
print("MANIFEST.json: %d checks, %d not_applicable" % (len(checks), len(na)))
