#!/usr/bin/env python3
"""Generates /verif/MANIFEST.json from the table below (single source of truth)."""
import json, os, sys
ROOT = os.path.dirname(os.path.dirname(os.path.abspath(__file__)))

ORACLE = "runtime monitoring: generated workload through a recording shim at the exported API, judged online by a reference-model oracle"
CHECKS = {
 "C01": dict(tech=ORACLE + " (naive grammar recogniser); complete edit-distance-1 neighbourhoods + hostile mutation stream; packed-corner and literal-guided objects",
   text="Every generated string is offered to the four real parsers and to an independent naive recogniser; any accept/reject disagreement, contract breach ((nil,nil)/(obj,err)) or panic is a violation. Exploration of an infinite language: complete edit-distance-1 neighbourhoods of anchor vectors, pairwise covering sets, 28 hostile mutation operators (incl. length wraps at 256/65536), rune twins, decorated anchors, relabelled element blocks, all 65,536 header digit pairs, explicit-copy representations, packed-code corners, literal-guided objects and string-literal-guided inputs, soup and random bytes.",
   note="trusts the transcription of the grammar in harness/spec/grammar.go; strings far from any valid vector are only sampled", ref="3 C01"),
 "C06": dict(tech=ORACLE + " (metric map read by the recogniser) on every Get after every accepted parse",
   text="For every accepted string of the stream, Get of every metric is compared with what the string says (explicit value or not-defined default); floor: every (metric,value) explicit and every optional metric omitted at least once, and at least 40 constructed hash-collision pairs of equal-length vectors per version parsed back to back (nine common 32-bit hashes).",
   note="trusts the recogniser's reading of an accepted string", ref="3 C06"),
 "C08": dict(tech=ORACLE + " (canonicaliser) on Vector() after every accepted parse, plus idempotence",
   text="For every accepted string, ParseVector(s).Vector() must equal the independent canonicaliser's output and be a fixed point of parse-then-serialise; non-canonical spellings are over-represented; constructed hash-collision pairs of equal-length vectors are parsed back to back.",
   note="trusts Canonical() in harness/spec/grammar.go", ref="3 C08"),
 "C13": dict(tech="runtime monitoring: every string and every Vector() output cross-offered to all four parsers; at-most-one-acceptor monitor",
   text="The whole hostile string stream incl. header variants x bodies and cross-version bodies goes to all four parsers; two acceptors, or a Vector() accepted by a foreign parser or rejected by its own, is a violation.",
   note="no model needed (cross comparison)", ref="3 C13"),
 "C02": dict(tech="runtime monitoring: round-trip monitor (Vector -> ParseVector -> == and all Gets) over objects built through five public-API history styles",
   text="Objects are reached only through the public API (parse, Set histories incl. failing Sets, clones, zero values, accepted hostile mutants); each is serialised, parsed back and compared with == and on every Get. v2.0: complete enumeration of all 139,968,000 objects in the thorough tier; v3/v4: every assignment with at most 4/5 optional metrics defined, a Gray-code walk of all optional-metric configurations (complete in thorough: 221 M x 2 and 1.18 G), random objects with an all-pairs floor.",
   note="self-comparison, no model; v3/v4 spaces are sampled", ref="3 C02"),
 "C03": dict(tech=ORACLE + " (exact rational arithmetic, math/big); complete effective-class sweep",
   text="All 16,588,800 effective classes of v3.0 and of v3.1 are realised on real objects and BaseScore/TemporalScore/EnvironmentalScore/Impact/Exploitability compared with an exact-rational evaluation of the specification equations; Modified-metric cover and random overlays lift it to the raw space.",
   note="trusts the transcription of weights/equations in harness/spec/score_v3.go and math/big", ref="3 C03"),
 "C04": dict(tech=ORACLE + " (exact integer MacroVector model, independent 270-cell table); complete effective-class sweep",
   text="All 15,116,544 effective classes (270/270 MacroVectors) are realised on real objects through base and/or Modified metrics and Score() must equal the exact half-up value of the section 8 algorithm with no tolerance; random raw assignments and supplemental-metric siblings added.",
   note="trusts the transcription of Tables 24-30 / section 8.2 in harness/spec/score_v4.go and the independently sourced lookup data", ref="3 C04"),
 "C05": dict(tech=ORACLE + " (exact rational arithmetic with either-neighbour ties); complete enumeration of the whole input space in both tiers",
   text="Every one of the 139,968,000 v2.0 assignments is built through the API, in both tiers, and its three scores must lie in the oracle's conforming set (either neighbour on an exact tie), sub-scores within 1e-9; thorough repeats the complete pass in random history styles.",
   note="trusts the transcription of the v2 guide equations in harness/spec/score_v2.go", ref="3 C05"),
 "C07": dict(tech="runtime monitoring: shadow-map monitor on every Set of complete (m,v,m',v') quadruple matrices and random hostile Set histories; == monitor",
   text="Complete quadruple matrix on three backgrounds (all-max codes expose masks one bit too wide), failing Sets must leave the object bit-identical, random histories of up to 200 Sets are checked against a shadow map after every step, a Gray-code walk visits every configuration of the optional metrics by single Set calls with read-back (complete in thorough), and equal maps must give == objects whatever the history.",
   note="shadow map = the property's own statement; histories sampled", ref="3 C07"),
 "C09": dict(tech="runtime monitoring: complete hostile abbreviation x value matrix against the vocabulary tables; well-formedness sweep after hostile histories",
   text="Complete cross product of ~500 hostile abbreviations x ~300 hostile values per version on zero and random objects (accept iff in the vocabulary), then every hostile history is followed by a sweep: all Gets legal, Vector() grammatical and consistent, every scoring method returns.",
   note="trusts the vocabulary tables in harness/spec/vocab.go", ref="3 C09"),
 "C11": dict(tech="runtime monitoring: arithmetic predicate monitor (finite, exact one-decimal, range, Rating accepts) on every scoring result of complete class sweeps",
   text="Every result of every rounded scoring method over the complete class sweeps of v3.0/v3.1/v4.0 (v2.0 complete in thorough) and random raw objects must be finite, equal float64(k)/10, in range and accepted by Rating.",
   note="pure predicate, no model", ref="3 C11"),
 "C16": dict(tech=ORACLE + " (nomenclature from the assignment); complete enumeration of all threat x environmental configurations by a Gray-code walk of Set calls, of all supplemental and of all base configurations; packed-corner and literal-guided objects",
   text="Nomenclature() compared with the group-membership oracle on ALL 1,179,648,000 configurations of the threat metric and the 14 environmental metrics (Gray-code walk, one Set per step on a real object), plus every optional metric as the sole defined one, all-but-one, all pairs, every assignment with at most 4/5 optional metrics defined, and random assignments built through hostile histories.",
   note="trusts Table 23 group membership in harness/spec/vocab.go", ref="3 C16"),
 "C10": dict(tech="runtime monitoring: metamorphic sibling-equality monitor (objects with equal effective values must score equal); complete per-metric override matrix",
   text="No model: objects that differ only in overridden base values, in where an effective value is carried (Modified vs base), in X vs explicit copy, in not-defined vs spelled-out default, in supplemental metrics (v4) or environmental metrics (v3 base/temporal) must return identical scores. Complete per overridable metric x base value x Modified value on seeded backgrounds incl. the all-None/all-High impact corners.",
   note="defaults per specification tables; backgrounds sampled", ref="3 C10"),
 "C12": dict(tech="runtime monitoring: every grid object scored once on a real object, then complete single-step edge comparison along the specification's severity orders",
   text="All single-severity-step edges are compared on scores observed from real objects: v2.0 and v3.0 base x temporal, v3.1 base x temporal x requirements (3 scores), v4.0 all 15,116,544 effective classes (149.9M edges) -- complete in both tiers -- plus random raw steps on Modified / overridden metrics.",
   note="trusts the severity orders in harness/spec/vocab.go; oracle-independent otherwise", ref="3 C12"),
 "C15": dict(tech=ORACLE + " (interval function on the exact real value, math/big) over all thresholds +-ulps, all 101 scores, k-bit-mantissa (float32/half) neighbourhoods, specials and random bit patterns",
   text="The three Rating functions are compared with the statement's interval function at every one-decimal score, every threshold with 1-4 ulps on each side, signed zero, subnormals, infinities and millions of random float64 bit patterns; error identity and empty string checked.",
   note="NaN unspecified and skipped", ref="3 C15"),
 "C18": dict(tech="runtime monitoring: single-defect injector with planted ground truth over shape-complete sources; error identity monitor via errors.Is/errors.As (+ abbreviation byte for byte); hostile Get/Set matrix on several receivers",
   text="Exactly one defect of a known kind is planted at every element position of covering and random well-formed vectors and the returned error must be the documented sentinel / typed error (with the right abbreviation); Get/Set over the complete hostile abbreviation x value matrix. Known finding F3 matched narrowly.",
   note="expected values exactly as listed in C18; defect kinds the statement does not fix are not generated", ref="3 C18"),
 "C14": dict(tech="Go race detector (+checkptr) on a plain and on a yield-point-instrumented build of the current tree, history-independence monitor (result == quiescent / fresh-process baseline) over pair, sibling, aliased-input, call-count and elapsed-time histories, single- and two-method hammer phases, kept-result (strings, objects, errors) and poisoned-error monitors; -asan build in thorough",
   text="Three (thorough: four) builds of the current tree run (0) cold concurrent starts in fresh processes judged against the spec oracles, (1) sequential histories designed to expose stale pooled state, (2) a hostile concurrent workload (few inputs, many goroutines, GOMAXPROCS grid); every result is compared with a quiescent baseline (itself cross-checked in a fresh process), every Vector() string and every object handed out by ParseVector is kept and re-verified after later calls, score-Set-score histories are judged by the oracle, race reports are counted from the GORACE log. An AST pass inserts seeded Gosched/sleep yield points into a scratch copy of go-cvss to widen interleavings.",
   note="race detector sees only executed access pairs; interleavings are explored, not enumerated; baselines after double GC stand for 'no history'", ref="3 C14"),
 "C17": dict(tech="runtime allocation counters (runtime.MemStats.Mallocs deltas) around concrete API calls in steady state (GOMAXPROCS(1), GC off), block-counted over exhaustive Gray-code walks, and process-wide under 16 concurrent callers",
   text="Mean heap allocations per call are measured for ParseVector, Vector, every Get/Set arm (legal and illegal values), every scoring method, Rating and Nomenclature over inputs that make lenVec and the parsers branch (every optional metric alone x value, every pair, all, none, explicit X/ND, shuffled v3, random subsets), both in a steady state of the same call and for a call that directly follows a different call (valid and single-defect vectors of every error kind; MemStats read in between); minimum over repetitions so a loaded machine cannot cause a false alarm.",
   note="a property of the compiled program: decided for go1.23.5 in this image, plain build", ref="3 C17"),
}
NOT_YET = {}
props = [json.loads(l)["id"] for l in open(os.path.join(ROOT, "properties.jsonl"))]
checks = []
for pid in props:
    if pid not in CHECKS: continue
    c = CHECKS[pid]
    checks.append({
        "property_id": pid,
        "quick_cmd": "./run.sh %s quick" % pid,
        "thorough_cmd": "./run.sh %s thorough" % pid,
        "evidence_file": "/verif/evidence/%s.json" % pid,
        "replay_cmd_template": "./run.sh --replay {path}",
        "engine": "verifharness",
        "level_claimed": {"category": "exploration", "text": c["text"], "design_ref": "DESIGN.md section " + c["ref"]},
        "level_note": c["note"],
        "technique": c["tech"],
    })
na = [{"property_id": p, "reason": NOT_YET.get(p, "check not built yet in this revision (planned, see DESIGN.md section 3)")} for p in props if p not in CHECKS]
man = {
 "version": 1,
 "setup_cmd": "./setup.sh",
 "hooks": {"guard": "verif", "enable": "none needed: all observation is at the exported API; the harness module links /repo through a go.mod replace directive and is rebuilt by run.sh on every invocation",
           "baseline_off_cmd": "/verif/baseline.sh", "source_commits": [], "add_only": True},
 "engines": [{"name": "verifharness", "path": "/verif/harness", "serves_properties": sorted(CHECKS), "kind_free_text": "Go module: reference-model oracles (spec/), workload generators (gen/), recording shim (probe/), online monitors (mon/), driver (cmd/verif); entry point /verif/run.sh"}],
 "checks": checks,
 "not_applicable": na,
 "notes": "Exit codes of run.sh: 0 held, 1 violation (VIOLATION line + replay file), 3 inconclusive (watchdog / coverage floor not reached), 4 broken check. Known findings: /verif/known_findings.json.",
}
json.dump(man, open(os.path.join(ROOT, "MANIFEST.json"), "w"), indent=1)
print("MANIFEST.json: %d checks, %d not_applicable" % (len(checks), len(na)))
