#!/bin/bash
# Runs the repository's pinned test suite (hooks off -- there are none) and
# compares the set of passing tests with /root/.vp/BASELINE.json stable_pass.
# Exit 0 iff every stable_pass test passes.
set -u
unset GOFLAGS
export GOPROXY=off GOSUMDB=off GOTOOLCHAIN=local
REPO=${REPO:-/repo}
out=$(mktemp /tmp/verif-baseline.XXXXXX)
trap 'rm -f "$out"' EXIT
for m in . ./differential; do
  (cd "$REPO/$m" && go test -json -vet=off -count=1 -timeout 25m ./... 2>/dev/null) >>"$out"
done
python3 - "$out" <<'EOF'
import json,sys
passed=set(); failed=set()
for l in open(sys.argv[1]):
    l=l.strip()
    if not l.startswith('{'): continue
    try: e=json.loads(l)
    except Exception: continue
    t=e.get('Test')
    if not t: continue
    k=e['Package']+'::'+t
    if e.get('Action')=='pass': passed.add(k)
    elif e.get('Action')=='fail': failed.add(k)
base=json.load(open('/root/.vp/BASELINE.json'))
want=set(base['stable_pass'])
missing=sorted(want-passed)
print("baseline: %d/%d stable tests pass; %d other failures (always_fail set has %d)"%(len(want&passed),len(want),len(failed-want),len(base['always_fail'])))
for m in missing[:20]: print("  NOT PASSING:",m)
sys.exit(1 if missing else 0)
EOF
