// Command verif runs one property check against the go-cvss tree the harness
// module is linked against (replace => /repo): verif <ID> <quick|thorough>.
package main

import (
	"fmt"
	"os"
	"strconv"

	"verifharness/instr"
	"verifharness/mon"
	"verifharness/spec"
)

var checks = map[string]func(*mon.Ctx){
	"C01": mon.CheckC01,
	"C02": mon.CheckC02,
	"C07": mon.CheckC07,
	"C09": mon.CheckC09,
	"C14": mon.CheckC14,
	"C15": mon.CheckC15,
	"C16": mon.CheckC16,
	"C17": mon.CheckC17,
	"C18": mon.CheckC18,
	"C03": mon.CheckC03,
	"C04": mon.CheckC04,
	"C05": mon.CheckC05,
	"C06": mon.CheckC06,
	"C10": mon.CheckC10,
	"C11": mon.CheckC11,
	"C12": mon.CheckC12,
	"C08": mon.CheckC08,
	"C13": mon.CheckC13,
}

func main() {
	if len(os.Args) >= 3 && os.Args[1] == "--replay" {
		mon.Replay(os.Args[2])
		return
	}
	if len(os.Args) >= 4 && os.Args[1] == "instr" {
		res, err := instr.Run(os.Args[2], os.Args[3])
		if err != nil {
			mon.Broken("instr: %v", err)
		}
		fmt.Printf("%d files, %d yield points\n", res.Files, res.Points)
		return
	}
	if len(os.Args) >= 4 && os.Args[1] == "C14sig" {
		ver, _ := strconv.Atoi(os.Args[2])
		mon.C14Sig(ver, os.Args[3])
		return
	}
	if len(os.Args) >= 6 && os.Args[1] == "C14cold" {
		seed, _ := strconv.ParseInt(os.Args[3], 10, 64)
		idx, _ := strconv.Atoi(os.Args[5])
		mon.C14Cold(os.Args[4], os.Args[2], seed, idx)
		return
	}
	if len(os.Args) >= 4 && os.Args[1] == "C14ages" {
		seed, _ := strconv.ParseInt(os.Args[3], 10, 64)
		mon.C14Ages(os.Args[2], seed)
		return
	}
	if len(os.Args) >= 5 && os.Args[1] == "C14child" {
		seed, _ := strconv.ParseInt(os.Args[3], 10, 64)
		mon.C14Child(os.Args[4], os.Args[2], seed)
		return
	}
	if len(os.Args) < 3 {
		fmt.Fprintln(os.Stderr, "usage: verif <ID> <quick|thorough> | verif --replay <file>")
		os.Exit(mon.ExitBroken)
	}
	id, tier := os.Args[1], os.Args[2]
	f, ok := checks[id]
	if !ok {
		mon.Broken("unknown check %s", id)
	}
	seed := int64(1)
	if s := os.Getenv("VERIF_SEED"); s != "" {
		if n, err := strconv.ParseInt(s, 10, 64); err == nil {
			seed = n
		}
	}
	root := os.Getenv("VERIF_ROOT")
	if root == "" {
		root = "/verif"
	}
	if err := spec.SelfTest(); err != nil {
		mon.Broken("oracle self-test failed: %v", err)
	}
	c := mon.NewCtx(id, tier, seed, root)
	f(c)
}
