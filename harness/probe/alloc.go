package probe

import (
	"runtime"
	"runtime/debug"

	gocvss20 "github.com/pandatix/go-cvss/20"
	gocvss30 "github.com/pandatix/go-cvss/30"
	gocvss31 "github.com/pandatix/go-cvss/31"
	gocvss40 "github.com/pandatix/go-cvss/40"

	"verifharness/spec"
)

// Allocation probes call the CONCRETE go-cvss functions (no interface boxing
// of the harness's own) and keep results alive in package-level sinks.

var (
	sinkStr string
	sinkErr error
	sinkF   float64
	sink20  *gocvss20.CVSS20
	sink30  *gocvss30.CVSS30
	sink31  *gocvss31.CVSS31
	sink40  *gocvss40.CVSS40
)

// KeepAlive reads every sink so that no tool or optimiser can consider the measured results unused.
func KeepAlive() int {
	n := len(sinkStr)
	if sinkErr != nil {
		n++
	}
	if sinkF != 0 {
		n++
	}
	for _, p := range []bool{sink20 != nil, sink30 != nil, sink31 != nil, sink40 != nil} {
		if p {
			n++
		}
	}
	return n
}

// AllocOp is one measurable operation with its budget from C17.
type AllocOp struct {
	Name   string
	Arg    string
	Budget int
	Exact  bool // true: exactly Budget; false: at most Budget
	F      func()
}

// AllocOps prepares the operations for one well-formed vector of a version.
// gets: abbreviations for Get; sets: (abbreviation, value) pairs for Set (legal or illegal values of known metrics).
func AllocOps(ver int, vec string, gets []string, sets [][2]string) (ops []AllocOp, err error) {
	add := func(name, arg string, budget int, exact bool, f func()) {
		ops = append(ops, AllocOp{name, arg, budget, exact, f})
	}
	switch ver {
	case spec.V20:
		p, e := gocvss20.ParseVector(vec)
		if e != nil {
			return nil, e
		}
		obj := *p
		add("ParseVector", vec, 1, false, func() { sink20, sinkErr = gocvss20.ParseVector(vec) })
		add("Vector", vec, 1, true, func() { sinkStr = obj.Vector() })
		add("BaseScore", vec, 0, true, func() { sinkF = obj.BaseScore() })
		add("TemporalScore", vec, 0, true, func() { sinkF = obj.TemporalScore() })
		add("EnvironmentalScore", vec, 0, true, func() { sinkF = obj.EnvironmentalScore() })
		add("Impact", vec, 0, true, func() { sinkF = obj.Impact() })
		add("Exploitability", vec, 0, true, func() { sinkF = obj.Exploitability() })
		for _, g := range gets {
			g := g
			add("Get", g, 0, true, func() { sinkStr, sinkErr = obj.Get(g) })
		}
		for _, s := range sets {
			s := s
			add("Set", s[0]+"="+s[1], 0, true, func() { tmp := obj; sinkErr = tmp.Set(s[0], s[1]) })
		}
	case spec.V30:
		p, e := gocvss30.ParseVector(vec)
		if e != nil {
			return nil, e
		}
		obj := *p
		add("ParseVector", vec, 1, false, func() { sink30, sinkErr = gocvss30.ParseVector(vec) })
		add("Vector", vec, 1, true, func() { sinkStr = obj.Vector() })
		add("BaseScore", vec, 0, true, func() { sinkF = obj.BaseScore() })
		add("TemporalScore", vec, 0, true, func() { sinkF = obj.TemporalScore() })
		add("EnvironmentalScore", vec, 0, true, func() { sinkF = obj.EnvironmentalScore() })
		add("Impact", vec, 0, true, func() { sinkF = obj.Impact() })
		add("Exploitability", vec, 0, true, func() { sinkF = obj.Exploitability() })
		for _, g := range gets {
			g := g
			add("Get", g, 0, true, func() { sinkStr, sinkErr = obj.Get(g) })
		}
		for _, s := range sets {
			s := s
			add("Set", s[0]+"="+s[1], 0, true, func() { tmp := obj; sinkErr = tmp.Set(s[0], s[1]) })
		}
	case spec.V31:
		p, e := gocvss31.ParseVector(vec)
		if e != nil {
			return nil, e
		}
		obj := *p
		add("ParseVector", vec, 1, false, func() { sink31, sinkErr = gocvss31.ParseVector(vec) })
		add("Vector", vec, 1, true, func() { sinkStr = obj.Vector() })
		add("BaseScore", vec, 0, true, func() { sinkF = obj.BaseScore() })
		add("TemporalScore", vec, 0, true, func() { sinkF = obj.TemporalScore() })
		add("EnvironmentalScore", vec, 0, true, func() { sinkF = obj.EnvironmentalScore() })
		add("Impact", vec, 0, true, func() { sinkF = obj.Impact() })
		add("Exploitability", vec, 0, true, func() { sinkF = obj.Exploitability() })
		for _, g := range gets {
			g := g
			add("Get", g, 0, true, func() { sinkStr, sinkErr = obj.Get(g) })
		}
		for _, s := range sets {
			s := s
			add("Set", s[0]+"="+s[1], 0, true, func() { tmp := obj; sinkErr = tmp.Set(s[0], s[1]) })
		}
	case spec.V40:
		p, e := gocvss40.ParseVector(vec)
		if e != nil {
			return nil, e
		}
		obj := *p
		add("ParseVector", vec, 1, false, func() { sink40, sinkErr = gocvss40.ParseVector(vec) })
		add("Vector", vec, 1, true, func() { sinkStr = obj.Vector() })
		add("Score", vec, 0, true, func() { sinkF = obj.Score() })
		add("Nomenclature", vec, 0, true, func() { sinkStr = obj.Nomenclature() })
		for _, g := range gets {
			g := g
			add("Get", g, 0, true, func() { sinkStr, sinkErr = obj.Get(g) })
		}
		for _, s := range sets {
			s := s
			add("Set", s[0]+"="+s[1], 0, true, func() { tmp := obj; sinkErr = tmp.Set(s[0], s[1]) })
		}
	}
	return ops, nil
}

// RatingOps measures Rating of the three packages that have it.
func RatingOps(x float64) []AllocOp {
	return []AllocOp{
		{"Rating30", "", 0, true, func() { sinkStr, sinkErr = gocvss30.Rating(x) }},
		{"Rating31", "", 0, true, func() { sinkStr, sinkErr = gocvss31.Rating(x) }},
		{"Rating40", "", 0, true, func() { sinkStr, sinkErr = gocvss40.Rating(x) }},
	}
}

// MeasureAllocs returns the mean number of heap allocations per call of f in
// steady state: warm-up calls, then delta(MemStats.Mallocs)/n. The caller
// must have set GOMAXPROCS(1); GC is switched off for the measurement.
func MeasureAllocs(f func(), warm, n int) float64 {
	old := debug.SetGCPercent(-1)
	defer debug.SetGCPercent(old)
	for i := 0; i < warm; i++ {
		f()
	}
	var a, b runtime.MemStats
	runtime.ReadMemStats(&a)
	for i := 0; i < n; i++ {
		f()
	}
	runtime.ReadMemStats(&b)
	return float64(b.Mallocs-a.Mallocs) / float64(n)
}

// ParseOnly returns a closure that calls the concrete ParseVector of a version on s (accepted or not).
func ParseOnly(ver int, s string) func() {
	switch ver {
	case spec.V20:
		return func() { sink20, sinkErr = gocvss20.ParseVector(s) }
	case spec.V30:
		return func() { sink30, sinkErr = gocvss30.ParseVector(s) }
	case spec.V31:
		return func() { sink31, sinkErr = gocvss31.ParseVector(s) }
	}
	return func() { sink40, sinkErr = gocvss40.ParseVector(s) }
}

// MeasureAllocsAfter returns the mean number of heap allocations of f when
// every call of f is immediately preceded by pre(): allocations of pre are
// excluded (MemStats is read between pre and f). GOMAXPROCS(1), GC off.
func MeasureAllocsAfter(pre, f func(), warm, n int) float64 {
	old := debug.SetGCPercent(-1)
	defer debug.SetGCPercent(old)
	for i := 0; i < warm; i++ {
		pre()
		f()
	}
	var a, b runtime.MemStats
	var total uint64
	for i := 0; i < n; i++ {
		pre()
		runtime.ReadMemStats(&a)
		f()
		runtime.ReadMemStats(&b)
		total += b.Mallocs - a.Mallocs
	}
	return float64(total) / float64(n)
}

// Walker is a concrete object of one version driven by single Set calls, with Vector() called directly
// (no interface boxing), for the exhaustive allocation walk of C17.
type Walker struct {
	ver int
	c20 gocvss20.CVSS20
	c30 gocvss30.CVSS30
	c31 gocvss31.CVSS31
	c40 gocvss40.CVSS40
}

func NewWalker(ver int, vec string) (*Walker, error) {
	w := &Walker{ver: ver}
	switch ver {
	case spec.V20:
		p, err := gocvss20.ParseVector(vec)
		if err != nil {
			return nil, err
		}
		w.c20 = *p
	case spec.V30:
		p, err := gocvss30.ParseVector(vec)
		if err != nil {
			return nil, err
		}
		w.c30 = *p
	case spec.V31:
		p, err := gocvss31.ParseVector(vec)
		if err != nil {
			return nil, err
		}
		w.c31 = *p
	default:
		p, err := gocvss40.ParseVector(vec)
		if err != nil {
			return nil, err
		}
		w.c40 = *p
	}
	return w, nil
}

func (w *Walker) Set(abv, val string) error {
	switch w.ver {
	case spec.V20:
		return w.c20.Set(abv, val)
	case spec.V30:
		return w.c30.Set(abv, val)
	case spec.V31:
		return w.c31.Set(abv, val)
	}
	return w.c40.Set(abv, val)
}

// Vector calls Vector() and keeps the result alive in the package-level sink.
func (w *Walker) Vector() int {
	switch w.ver {
	case spec.V20:
		sinkStr = w.c20.Vector()
	case spec.V30:
		sinkStr = w.c30.Vector()
	case spec.V31:
		sinkStr = w.c31.Vector()
	default:
		sinkStr = w.c40.Vector()
	}
	return len(sinkStr)
}

// Copy returns an independent copy (value types).
func (w *Walker) Copy() *Walker { c := *w; return &c }

// Mallocs reads the cumulative heap allocation counter.
func Mallocs() uint64 {
	var m runtime.MemStats
	runtime.ReadMemStats(&m)
	return m.Mallocs
}

// NScoreOps is the number of zero-allocation read methods ScoreOp can call for a version.
func (w *Walker) NScoreOps() int {
	if w.ver == spec.V40 {
		return 2
	}
	return 5
}

// ScoreOpName names the i-th method of ScoreOp.
func (w *Walker) ScoreOpName(i int) string {
	if w.ver == spec.V40 {
		return []string{"Score", "Nomenclature"}[i]
	}
	return []string{"BaseScore", "TemporalScore", "EnvironmentalScore", "Impact", "Exploitability"}[i]
}

// ScoreOp calls the i-th zero-allocation read method directly on the concrete object.
func (w *Walker) ScoreOp(i int) {
	switch w.ver {
	case spec.V20:
		switch i {
		case 0:
			sinkF = w.c20.BaseScore()
		case 1:
			sinkF = w.c20.TemporalScore()
		case 2:
			sinkF = w.c20.EnvironmentalScore()
		case 3:
			sinkF = w.c20.Impact()
		default:
			sinkF = w.c20.Exploitability()
		}
	case spec.V30:
		switch i {
		case 0:
			sinkF = w.c30.BaseScore()
		case 1:
			sinkF = w.c30.TemporalScore()
		case 2:
			sinkF = w.c30.EnvironmentalScore()
		case 3:
			sinkF = w.c30.Impact()
		default:
			sinkF = w.c30.Exploitability()
		}
	case spec.V31:
		switch i {
		case 0:
			sinkF = w.c31.BaseScore()
		case 1:
			sinkF = w.c31.TemporalScore()
		case 2:
			sinkF = w.c31.EnvironmentalScore()
		case 3:
			sinkF = w.c31.Impact()
		default:
			sinkF = w.c31.Exploitability()
		}
	default:
		if i == 0 {
			sinkF = w.c40.Score()
		} else {
			sinkStr = w.c40.Nomenclature()
		}
	}
}

// Scores calls every zero-allocation read method once.
func (w *Walker) Scores() {
	for i, n := 0, w.NScoreOps(); i < n; i++ {
		w.ScoreOp(i)
	}
}

// ParseLast parses the string produced by the last Vector() call with the concrete ParseVector of the version
// and keeps the result alive; it returns false when the parser rejects it.
func (w *Walker) ParseLast() bool {
	switch w.ver {
	case spec.V20:
		sink20, sinkErr = gocvss20.ParseVector(sinkStr)
	case spec.V30:
		sink30, sinkErr = gocvss30.ParseVector(sinkStr)
	case spec.V31:
		sink31, sinkErr = gocvss31.ParseVector(sinkStr)
	default:
		sink40, sinkErr = gocvss40.ParseVector(sinkStr)
	}
	return sinkErr == nil
}

// ConcSink keeps one goroutine's results alive without sharing a cache line with another goroutine's.
type ConcSink struct {
	S   string
	F   float64
	E   error
	P20 *gocvss20.CVSS20
	P30 *gocvss30.CVSS30
	P31 *gocvss31.CVSS31
	P40 *gocvss40.CVSS40
	_   [64]byte
}

// ConcOps returns closures for one goroutine: ParseVector of vec, Vector() and all scoring methods on a
// goroutine-private copy of the parsed object, results kept in the goroutine's own sink.
func ConcOps(ver int, vec string, k *ConcSink) (parse, vector, scores func(), err error) {
	switch ver {
	case spec.V20:
		p, e := gocvss20.ParseVector(vec)
		if e != nil {
			return nil, nil, nil, e
		}
		o := *p
		return func() { k.P20, k.E = gocvss20.ParseVector(vec) }, func() { k.S = o.Vector() }, func() {
			k.F = o.BaseScore() + o.TemporalScore() + o.EnvironmentalScore() + o.Impact() + o.Exploitability()
		}, nil
	case spec.V30:
		p, e := gocvss30.ParseVector(vec)
		if e != nil {
			return nil, nil, nil, e
		}
		o := *p
		return func() { k.P30, k.E = gocvss30.ParseVector(vec) }, func() { k.S = o.Vector() }, func() {
			k.F = o.BaseScore() + o.TemporalScore() + o.EnvironmentalScore() + o.Impact() + o.Exploitability()
		}, nil
	case spec.V31:
		p, e := gocvss31.ParseVector(vec)
		if e != nil {
			return nil, nil, nil, e
		}
		o := *p
		return func() { k.P31, k.E = gocvss31.ParseVector(vec) }, func() { k.S = o.Vector() }, func() {
			k.F = o.BaseScore() + o.TemporalScore() + o.EnvironmentalScore() + o.Impact() + o.Exploitability()
		}, nil
	}
	p, e := gocvss40.ParseVector(vec)
	if e != nil {
		return nil, nil, nil, e
	}
	o := *p
	return func() { k.P40, k.E = gocvss40.ParseVector(vec) }, func() { k.S = o.Vector() }, func() {
		k.F = o.Score()
		k.S = o.Nomenclature()
	}, nil
}
