// Package probe is the recording shim around go-cvss's exported API. It is the
// only package of the harness that imports go-cvss; it uses exported
// identifiers only. Every call recovers panics and reports them as results.
package probe

import (
	"errors"
	"fmt"

	gocvss20 "github.com/pandatix/go-cvss/20"
	gocvss30 "github.com/pandatix/go-cvss/30"
	gocvss31 "github.com/pandatix/go-cvss/31"
	gocvss40 "github.com/pandatix/go-cvss/40"

	"verifharness/spec"
)

// ErrKind classifies an error returned by go-cvss by identity (errors.Is / errors.As).
type ErrKind int

const (
	ENone ErrKind = iota
	EHeader
	ETooShort
	EOrder
	EValue
	EMissing    // *ErrMissing (v3)
	EDefinedN   // *ErrDefinedN (v3)
	EInvalidAbv // *ErrInvalidMetric
	EOutOfBounds
	EOther
	EPanic
)

var kindNames = [...]string{"nil", "ErrInvalidCVSSHeader", "ErrTooShortVector", "ErrInvalidMetricOrder", "ErrInvalidMetricValue", "*ErrMissing", "*ErrDefinedN", "*ErrInvalidMetric", "ErrOutOfBoundsScore", "other", "panic"}

func (k ErrKind) String() string { return kindNames[k] }

// ErrInfo is the observable identity of an error value.
type ErrInfo struct {
	Kind ErrKind
	Abv  string // for the typed errors
	Text string
}

func (e ErrInfo) String() string {
	if e.Kind == ENone {
		return "nil"
	}
	return fmt.Sprintf("%s{%q} %q", e.Kind, e.Abv, e.Text)
}

// Obj is a go-cvss object of some version behind a uniform interface.
type Obj interface {
	Get(abv string) (string, error)
	Set(abv, value string) error
	Vector() string
	Clone() Obj
	Equal(o Obj) bool
	Bytes() string // %v rendering of the struct, for replay files only
	Score(i int) float64
}

// API is one version's exported surface.
type API struct {
	Ver        *spec.Version
	Parse      func(s string) (Obj, error) // Obj is nil iff the returned pointer was nil
	New        func() Obj                  // zero value
	ScoreNames []string                    // rounded scores first, then sub-scores
	NRounded   int
	Rating     func(float64) (string, error) // nil for v2
	Classify   func(error) ErrInfo
	Nomencl    func(Obj) string // v4 only
}

type o20 struct{ c gocvss20.CVSS20 }
type o30 struct{ c gocvss30.CVSS30 }
type o31 struct{ c gocvss31.CVSS31 }
type o40 struct{ c gocvss40.CVSS40 }

func (o *o20) Get(a string) (string, error) { return o.c.Get(a) }
func (o *o20) Set(a, v string) error        { return o.c.Set(a, v) }
func (o *o20) Vector() string               { return o.c.Vector() }
func (o *o20) Clone() Obj                   { c := *o; return &c }
func (o *o20) Equal(p Obj) bool             { q, ok := p.(*o20); return ok && q.c == o.c }
func (o *o20) Bytes() string                { return fmt.Sprintf("%v", o.c) }
func (o *o20) Score(i int) float64 {
	switch i {
	case 0:
		return o.c.BaseScore()
	case 1:
		return o.c.TemporalScore()
	case 2:
		return o.c.EnvironmentalScore()
	case 3:
		return o.c.Impact()
	default:
		return o.c.Exploitability()
	}
}

func (o *o30) Get(a string) (string, error) { return o.c.Get(a) }
func (o *o30) Set(a, v string) error        { return o.c.Set(a, v) }
func (o *o30) Vector() string               { return o.c.Vector() }
func (o *o30) Clone() Obj                   { c := *o; return &c }
func (o *o30) Equal(p Obj) bool             { q, ok := p.(*o30); return ok && q.c == o.c }
func (o *o30) Bytes() string                { return fmt.Sprintf("%v", o.c) }
func (o *o30) Score(i int) float64 {
	switch i {
	case 0:
		return o.c.BaseScore()
	case 1:
		return o.c.TemporalScore()
	case 2:
		return o.c.EnvironmentalScore()
	case 3:
		return o.c.Impact()
	default:
		return o.c.Exploitability()
	}
}

func (o *o31) Get(a string) (string, error) { return o.c.Get(a) }
func (o *o31) Set(a, v string) error        { return o.c.Set(a, v) }
func (o *o31) Vector() string               { return o.c.Vector() }
func (o *o31) Clone() Obj                   { c := *o; return &c }
func (o *o31) Equal(p Obj) bool             { q, ok := p.(*o31); return ok && q.c == o.c }
func (o *o31) Bytes() string                { return fmt.Sprintf("%v", o.c) }
func (o *o31) Score(i int) float64 {
	switch i {
	case 0:
		return o.c.BaseScore()
	case 1:
		return o.c.TemporalScore()
	case 2:
		return o.c.EnvironmentalScore()
	case 3:
		return o.c.Impact()
	default:
		return o.c.Exploitability()
	}
}

func (o *o40) Get(a string) (string, error) { return o.c.Get(a) }
func (o *o40) Set(a, v string) error        { return o.c.Set(a, v) }
func (o *o40) Vector() string               { return o.c.Vector() }
func (o *o40) Clone() Obj                   { c := *o; return &c }
func (o *o40) Equal(p Obj) bool             { q, ok := p.(*o40); return ok && q.c == o.c }
func (o *o40) Bytes() string                { return fmt.Sprintf("%v", o.c) }
func (o *o40) Score(i int) float64          { return o.c.Score() }

// APIs indexed by spec.V20..V40.
var APIs [spec.NVersions]*API

func init() {
	APIs[spec.V20] = &API{
		Ver: spec.Versions[spec.V20],
		Parse: func(s string) (Obj, error) {
			p, err := gocvss20.ParseVector(s)
			if p == nil {
				return nil, err
			}
			return &o20{*p}, err
		},
		New:        func() Obj { return &o20{} },
		ScoreNames: []string{"BaseScore", "TemporalScore", "EnvironmentalScore", "Impact", "Exploitability"},
		NRounded:   3,
		Classify: func(err error) ErrInfo {
			if err == nil {
				return ErrInfo{}
			}
			var im *gocvss20.ErrInvalidMetric
			switch {
			case errors.Is(err, gocvss20.ErrTooShortVector):
				return ErrInfo{ETooShort, "", err.Error()}
			case errors.Is(err, gocvss20.ErrInvalidMetricOrder):
				return ErrInfo{EOrder, "", err.Error()}
			case errors.Is(err, gocvss20.ErrInvalidMetricValue):
				return ErrInfo{EValue, "", err.Error()}
			case errors.As(err, &im):
				return ErrInfo{EInvalidAbv, im.Abv, err.Error()}
			}
			return ErrInfo{EOther, "", err.Error()}
		},
	}
	APIs[spec.V30] = &API{
		Ver: spec.Versions[spec.V30],
		Parse: func(s string) (Obj, error) {
			p, err := gocvss30.ParseVector(s)
			if p == nil {
				return nil, err
			}
			return &o30{*p}, err
		},
		New:        func() Obj { return &o30{} },
		ScoreNames: []string{"BaseScore", "TemporalScore", "EnvironmentalScore", "Impact", "Exploitability"},
		NRounded:   3,
		Rating:     gocvss30.Rating,
		Classify: func(err error) ErrInfo {
			if err == nil {
				return ErrInfo{}
			}
			var im *gocvss30.ErrInvalidMetric
			var mi *gocvss30.ErrMissing
			var dn *gocvss30.ErrDefinedN
			switch {
			case errors.Is(err, gocvss30.ErrInvalidCVSSHeader):
				return ErrInfo{EHeader, "", err.Error()}
			case errors.Is(err, gocvss30.ErrTooShortVector):
				return ErrInfo{ETooShort, "", err.Error()}
			case errors.Is(err, gocvss30.ErrInvalidMetricValue):
				return ErrInfo{EValue, "", err.Error()}
			case errors.Is(err, gocvss30.ErrOutOfBoundsScore):
				return ErrInfo{EOutOfBounds, "", err.Error()}
			case errors.As(err, &im):
				return ErrInfo{EInvalidAbv, im.Abv, err.Error()}
			case errors.As(err, &mi):
				return ErrInfo{EMissing, mi.Abv, err.Error()}
			case errors.As(err, &dn):
				return ErrInfo{EDefinedN, dn.Abv, err.Error()}
			}
			return ErrInfo{EOther, "", err.Error()}
		},
	}
	APIs[spec.V31] = &API{
		Ver: spec.Versions[spec.V31],
		Parse: func(s string) (Obj, error) {
			p, err := gocvss31.ParseVector(s)
			if p == nil {
				return nil, err
			}
			return &o31{*p}, err
		},
		New:        func() Obj { return &o31{} },
		ScoreNames: []string{"BaseScore", "TemporalScore", "EnvironmentalScore", "Impact", "Exploitability"},
		NRounded:   3,
		Rating:     gocvss31.Rating,
		Classify: func(err error) ErrInfo {
			if err == nil {
				return ErrInfo{}
			}
			var im *gocvss31.ErrInvalidMetric
			var mi *gocvss31.ErrMissing
			var dn *gocvss31.ErrDefinedN
			switch {
			case errors.Is(err, gocvss31.ErrInvalidCVSSHeader):
				return ErrInfo{EHeader, "", err.Error()}
			case errors.Is(err, gocvss31.ErrTooShortVector):
				return ErrInfo{ETooShort, "", err.Error()}
			case errors.Is(err, gocvss31.ErrInvalidMetricValue):
				return ErrInfo{EValue, "", err.Error()}
			case errors.Is(err, gocvss31.ErrOutOfBoundsScore):
				return ErrInfo{EOutOfBounds, "", err.Error()}
			case errors.As(err, &im):
				return ErrInfo{EInvalidAbv, im.Abv, err.Error()}
			case errors.As(err, &mi):
				return ErrInfo{EMissing, mi.Abv, err.Error()}
			case errors.As(err, &dn):
				return ErrInfo{EDefinedN, dn.Abv, err.Error()}
			}
			return ErrInfo{EOther, "", err.Error()}
		},
	}
	APIs[spec.V40] = &API{
		Ver: spec.Versions[spec.V40],
		Parse: func(s string) (Obj, error) {
			p, err := gocvss40.ParseVector(s)
			if p == nil {
				return nil, err
			}
			return &o40{*p}, err
		},
		New:        func() Obj { return &o40{} },
		ScoreNames: []string{"Score"},
		NRounded:   1,
		Rating:     gocvss40.Rating,
		Nomencl:    func(o Obj) string { return o.(*o40).c.Nomenclature() },
		Classify: func(err error) ErrInfo {
			if err == nil {
				return ErrInfo{}
			}
			var im *gocvss40.ErrInvalidMetric
			switch {
			case errors.Is(err, gocvss40.ErrInvalidCVSSHeader):
				return ErrInfo{EHeader, "", err.Error()}
			case errors.Is(err, gocvss40.ErrTooShortVector):
				return ErrInfo{ETooShort, "", err.Error()}
			case errors.Is(err, gocvss40.ErrInvalidMetricOrder):
				return ErrInfo{EOrder, "", err.Error()}
			case errors.Is(err, gocvss40.ErrInvalidMetricValue):
				return ErrInfo{EValue, "", err.Error()}
			case errors.Is(err, gocvss40.ErrOutOfBoundsScore):
				return ErrInfo{EOutOfBounds, "", err.Error()}
			case errors.As(err, &im):
				return ErrInfo{EInvalidAbv, im.Abv, err.Error()}
			}
			return ErrInfo{EOther, "", err.Error()}
		},
	}
}

// ---- panic-recovering call wrappers --------------------------------------

// Panic describes a recovered panic.
type Panic struct{ Val string }

func rec(p **Panic) {
	if r := recover(); r != nil {
		*p = &Panic{fmt.Sprint(r)}
	}
}

func (a *API) SafeParse(s string) (o Obj, err error, p *Panic) {
	defer rec(&p)
	o, err = a.Parse(s)
	return
}

func SafeGet(o Obj, abv string) (v string, err error, p *Panic) {
	defer rec(&p)
	v, err = o.Get(abv)
	return
}

func SafeSet(o Obj, abv, val string) (err error, p *Panic) {
	defer rec(&p)
	err = o.Set(abv, val)
	return
}

func SafeVector(o Obj) (s string, p *Panic) {
	defer rec(&p)
	s = o.Vector()
	return
}

func SafeScore(o Obj, i int) (f float64, p *Panic) {
	defer rec(&p)
	f = o.Score(i)
	return
}

func (a *API) SafeRating(f float64) (s string, err error, p *Panic) {
	defer rec(&p)
	s, err = a.Rating(f)
	return
}

func (a *API) SafeNomencl(o Obj) (s string, p *Panic) {
	defer rec(&p)
	s = a.Nomencl(o)
	return
}
