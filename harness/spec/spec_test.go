package spec

import "testing"

func TestSelf(t *testing.T) {
	if err := SelfTest(); err != nil {
		t.Fatal(err)
	}
	t.Logf("v3.0 ambiguous cells %d, v3.1 %d, v2 tie cells %d", V3(V30).AmbiguousCells, V3(V31).AmbiguousCells, V2().TieCells)
}
