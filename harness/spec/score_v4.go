package spec

import "fmt"

// Exact integer model of the CVSS v4.0 scoring algorithm (specification
// section 8: 8.1 MacroVector lookup, 8.2 interpolation by proportional
// severity distances; Tables 24-30 for the equivalence classes and their
// highest severity vectors). Scores are computed as integers over the common
// denominator 840*n (840 = lcm of the possible depth+1 values 1,2,4,5,6,7,8,10).

// V4Eff are the effective values, as severity LEVELS (0 = most severe) in the
// orders of section 8.2:
//
//	AV N,A,L,P  PR N,L,H  UI N,P,A  AC L,H  AT N,P
//	VC/VI/VA H,L,N   SC H,L,N   SI/SA S,H,L,N
//	CR/IR/AR H,M,L   E A,P,U
type V4Eff struct {
	AV, PR, UI, AC, AT uint8
	VC, VI, VA         uint8
	SC, SI, SA         uint8
	CR, IR, AR         uint8
	E                  uint8
}

// Highest severity vectors per equivalence-class level (Tables 24-30), as levels.
type eq1max struct{ av, pr, ui uint8 }
type eq2max struct{ ac, at uint8 }
type eq36max struct{ vc, vi, va, cr, ir, ar uint8 }
type eq4max struct{ sc, si, sa uint8 }

var (
	// Table 24
	maxEQ1 = [3][]eq1max{
		{{0, 0, 0}},                       // AV:N/PR:N/UI:N
		{{1, 0, 0}, {0, 1, 0}, {0, 0, 1}}, // AV:A/PR:N/UI:N, AV:N/PR:L/UI:N, AV:N/PR:N/UI:P
		{{3, 0, 0}, {1, 1, 1}},            // AV:P/PR:N/UI:N, AV:A/PR:L/UI:P
	}
	// Table 25
	maxEQ2 = [2][]eq2max{
		{{0, 0}},         // AC:L/AT:N
		{{0, 1}, {1, 0}}, // AC:L/AT:P, AC:H/AT:N
	}
	// Table 27 (SI/SA levels: S=0,H=1,L=2,N=3; SC levels H=0,L=1,N=2)
	maxEQ4 = [3][]eq4max{
		{{0, 0, 0}}, // SC:H/SI:S/SA:S
		{{0, 1, 1}}, // SC:H/SI:H/SA:H
		{{1, 2, 2}}, // SC:L/SI:L/SA:L
	}
	// Table 30 (joint EQ3+EQ6)
	maxEQ36 = [3][2][]eq36max{
		{
			{{0, 0, 0, 0, 0, 0}},                     // VC:H/VI:H/VA:H/CR:H/IR:H/AR:H
			{{0, 0, 1, 1, 1, 0}, {0, 0, 0, 1, 1, 1}}, // VC:H/VI:H/VA:L/CR:M/IR:M/AR:H, VC:H/VI:H/VA:H/CR:M/IR:M/AR:M
		},
		{
			{{1, 0, 0, 0, 0, 0}, {0, 1, 0, 0, 0, 0}}, // VC:L/VI:H/VA:H/CR:H/IR:H/AR:H, VC:H/VI:L/VA:H/CR:H/IR:H/AR:H
			{
				{0, 1, 0, 1, 0, 1}, // VC:H/VI:L/VA:H/CR:M/IR:H/AR:M
				{0, 1, 1, 1, 0, 0}, // VC:H/VI:L/VA:L/CR:M/IR:H/AR:H
				{1, 0, 0, 0, 1, 1}, // VC:L/VI:H/VA:H/CR:H/IR:M/AR:M
				{1, 0, 1, 0, 1, 0}, // VC:L/VI:H/VA:L/CR:H/IR:M/AR:H
				{1, 1, 0, 0, 0, 1}, // VC:L/VI:L/VA:H/CR:H/IR:H/AR:M
			},
		},
		{
			nil,                  // EQ3=2, EQ6=0 cannot occur
			{{1, 1, 1, 0, 0, 0}}, // VC:L/VI:L/VA:L/CR:H/IR:H/AR:H
		},
	}
	// depth+1 of each level = number of severity steps inside the MacroVector + 1 (section 8.2 "maxSeverity")
	depth1EQ1  = [3]int{1, 4, 5}
	depth1EQ2  = [2]int{1, 2}
	depth1EQ36 = [3][2]int{{7, 6}, {8, 8}, {0, 10}}
	depth1EQ4  = [3]int{6, 5, 4}
)

// MacroVector computes EQ1..EQ6 (Tables 24-29).
func (e V4Eff) MacroVector() (eq [6]int) {
	// EQ1 (Table 24)
	n := 0
	if e.AV == 0 {
		n++
	}
	if e.PR == 0 {
		n++
	}
	if e.UI == 0 {
		n++
	}
	switch {
	case n == 3:
		eq[0] = 0
	case n >= 1 && e.AV != 3:
		eq[0] = 1
	default:
		eq[0] = 2
	}
	// EQ2 (Table 25)
	if !(e.AC == 0 && e.AT == 0) {
		eq[1] = 1
	}
	// EQ3 (Table 26)
	switch {
	case e.VC == 0 && e.VI == 0:
		eq[2] = 0
	case e.VC == 0 || e.VI == 0 || e.VA == 0:
		eq[2] = 1
	default:
		eq[2] = 2
	}
	// EQ4 (Table 27)
	switch {
	case e.SI == 0 || e.SA == 0:
		eq[3] = 0
	case e.SC == 0 || e.SI == 1 || e.SA == 1:
		eq[3] = 1
	default:
		eq[3] = 2
	}
	// EQ5 (Table 28)
	eq[4] = int(e.E)
	// EQ6 (Table 29)
	if (e.CR == 0 && e.VC == 0) || (e.IR == 0 && e.VI == 0) || (e.AR == 0 && e.VA == 0) {
		eq[5] = 0
	} else {
		eq[5] = 1
	}
	return
}

func mvKey(eq [6]int) int {
	return ((((eq[0]*10+eq[1])*10+eq[2])*10+eq[3])*10+eq[4])*10 + eq[5]
}

var v4Arr [222223]int16

func init() {
	for i := range v4Arr {
		v4Arr[i] = -1
	}
	for k, v := range v4Lookup {
		v4Arr[k] = int16(v)
	}
}

// V4Result of the exact model.
type V4Result struct {
	K        int    // score in tenths
	MV       [6]int // MacroVector
	NoImpact bool
	Tie      bool // exact value was x.x5 (rounded up)
	Lower    int  // number of existing next-lower MacroVectors (0..5)
	EQ36Case int  // 0: none lower, 1: 11->21, 2: 01->11, 3: 10->11, 4: 00->max(01,10)
}

// V4Score evaluates the section 8 algorithm exactly.
func V4Score(e V4Eff) V4Result {
	var r V4Result
	// "if there is no impact on the system and subsequent systems the score is 0"
	if e.VC == 2 && e.VI == 2 && e.VA == 2 && e.SC == 2 && e.SI == 3 && e.SA == 3 {
		r.NoImpact = true
		r.MV = e.MacroVector()
		return r
	}
	eq := e.MacroVector()
	r.MV = eq
	look := func(q [6]int) (int, bool) {
		v := v4Arr[mvKey(q)]
		return int(v), v >= 0
	}
	L, ok := look(eq)
	if !ok {
		panic(fmt.Sprintf("spec: MacroVector %v not in lookup table", eq))
	}
	type term struct{ msd, dist, d1 int }
	var termsArr [5]term
	terms := termsArr[:0]
	// severity distances to the first highest-severity vector that dominates (all distances >= 0)
	d1 := -1
	for _, mx := range maxEQ1[eq[0]] {
		if e.AV >= mx.av && e.PR >= mx.pr && e.UI >= mx.ui {
			d1 = int(e.AV-mx.av) + int(e.PR-mx.pr) + int(e.UI-mx.ui)
			break
		}
	}
	d2 := -1
	for _, mx := range maxEQ2[eq[1]] {
		if e.AC >= mx.ac && e.AT >= mx.at {
			d2 = int(e.AC-mx.ac) + int(e.AT-mx.at)
			break
		}
	}
	d36 := -1
	for _, mx := range maxEQ36[eq[2]][eq[5]] {
		if e.VC >= mx.vc && e.VI >= mx.vi && e.VA >= mx.va && e.CR >= mx.cr && e.IR >= mx.ir && e.AR >= mx.ar {
			d36 = int(e.VC-mx.vc) + int(e.VI-mx.vi) + int(e.VA-mx.va) + int(e.CR-mx.cr) + int(e.IR-mx.ir) + int(e.AR-mx.ar)
			break
		}
	}
	d4 := -1
	for _, mx := range maxEQ4[eq[3]] {
		if e.SC >= mx.sc && e.SI >= mx.si && e.SA >= mx.sa {
			d4 = int(e.SC-mx.sc) + int(e.SI-mx.si) + int(e.SA-mx.sa)
			break
		}
	}
	if d1 < 0 || d2 < 0 || d36 < 0 || d4 < 0 {
		panic(fmt.Sprintf("spec: no dominating highest-severity vector for %+v (mv %v): %d %d %d %d", e, eq, d1, d2, d36, d4))
	}
	// next lower MacroVectors
	if eq[0] < 2 {
		q := eq
		q[0]++
		if v, ok := look(q); ok {
			terms = append(terms, term{L - v, d1, depth1EQ1[eq[0]]})
		}
	}
	if eq[1] < 1 {
		q := eq
		q[1]++
		if v, ok := look(q); ok {
			terms = append(terms, term{L - v, d2, depth1EQ2[eq[1]]})
		}
	}
	// EQ3 and EQ6 are coupled
	{
		var v int
		have := false
		switch {
		case eq[2] == 1 && eq[5] == 1:
			q := eq
			q[2] = 2
			v, have = look(q)
			r.EQ36Case = 1
		case eq[2] == 0 && eq[5] == 1:
			q := eq
			q[2] = 1
			v, have = look(q)
			r.EQ36Case = 2
		case eq[2] == 1 && eq[5] == 0:
			q := eq
			q[5] = 1
			v, have = look(q)
			r.EQ36Case = 3
		case eq[2] == 0 && eq[5] == 0:
			ql, qr := eq, eq
			ql[2] = 1
			qr[5] = 1
			vl, okl := look(ql)
			vr, okr := look(qr)
			r.EQ36Case = 4
			switch {
			case okl && okr:
				v, have = vl, true
				if vr > vl {
					v = vr
				}
			case okl:
				v, have = vl, true
			case okr:
				v, have = vr, true
			}
		}
		if have {
			terms = append(terms, term{L - v, d36, depth1EQ36[eq[2]][eq[5]]})
		}
	}
	if eq[3] < 2 {
		q := eq
		q[3]++
		if v, ok := look(q); ok {
			terms = append(terms, term{L - v, d4, depth1EQ4[eq[3]]})
		}
	}
	if eq[4] < 2 {
		q := eq
		q[4]++
		if v, ok := look(q); ok {
			// EQ5 has a single metric: distance inside the level is always 0, depth 0
			terms = append(terms, term{L - v, 0, 1})
		}
	}
	n := len(terms)
	r.Lower = n
	if n == 0 {
		r.K = L
		return r
	}
	// value (in tenths) = L - (1/n) * sum(msd*dist/d1); scale by 840*n
	den := int64(840 * n)
	num := int64(L) * den
	for _, t := range terms {
		if t.msd < 0 {
			panic("spec: lower MacroVector scores higher")
		}
		num -= int64(t.msd) * int64(t.dist) * int64(840/t.d1)
	}
	if num < 0 {
		panic("spec: negative score")
	}
	// half-up to integer tenths: floor((2*num + den) / (2*den))
	r.K = int((2*num + den) / (2 * den))
	r.Tie = (2*num+den)%(2*den) == 0
	return r
}

// V4Effective resolves an assignment (vocabulary order of Versions[V40]) to
// effective severity levels: the Modified metric when defined, else the base
// metric; E:X = A; CR/IR/AR:X = H (specification sections 4, 4.2 and Table 13ff).
func V4Effective(a Assign) V4Eff {
	// vocabulary: 0 AV,1 AC,2 AT,3 PR,4 UI,5 VC,6 VI,7 VA,8 SC,9 SI,10 SA,11 E,12 CR,13 IR,14 AR,
	// 15 MAV,16 MAC,17 MAT,18 MPR,19 MUI,20 MVC,21 MVI,22 MVA,23 MSC,24 MSI,25 MSA
	eff := func(mod, base int) uint8 {
		if a[mod] != 0 {
			return a[mod] - 1
		}
		return a[base]
	}
	var e V4Eff
	e.AV = eff(15, 0) // N A L P -> levels 0..3
	e.AC = eff(16, 1) // L H
	e.AT = eff(17, 2) // N P
	e.PR = eff(18, 3) // N L H
	e.UI = eff(19, 4) // N P A
	e.VC = eff(20, 5) // H L N
	e.VI = eff(21, 6)
	e.VA = eff(22, 7)
	e.SC = eff(23, 8)
	// SI/SA: base list H L N -> levels 1..3; Modified list X S H L N -> S=0,H=1,L=2,N=3
	if a[24] != 0 {
		e.SI = a[24] - 1
	} else {
		e.SI = a[9] + 1
	}
	if a[25] != 0 {
		e.SA = a[25] - 1
	} else {
		e.SA = a[10] + 1
	}
	// E: X A P U -> X=A
	if a[11] != 0 {
		e.E = a[11] - 1
	}
	req := func(i int) uint8 { // X H M L -> X=H
		if a[i] != 0 {
			return a[i] - 1
		}
		return 0
	}
	e.CR, e.IR, e.AR = req(12), req(13), req(14)
	return e
}

// V4ClassCount is the number of effective classes: 4*2*2*3*3 * 3^4 * 4*4 * 3 * 27.
const V4ClassCount = 15116544

// V4ClassFromIndex enumerates the effective classes.
func V4ClassFromIndex(i int) V4Eff {
	var e V4Eff
	f := func(n int) uint8 { r := i % n; i /= n; return uint8(r) }
	e.AV, e.AC, e.AT, e.PR, e.UI = f(4), f(2), f(2), f(3), f(3)
	e.VC, e.VI, e.VA, e.SC = f(3), f(3), f(3), f(3)
	e.SI, e.SA = f(4), f(4)
	e.E = f(3)
	e.CR, e.IR, e.AR = f(3), f(3), f(3)
	return e
}

// V4SelfCheck verifies facts the model relies on: every highest-severity
// vector is classified into its own MacroVector level, all highest-severity
// vectors of a level have the same total severity (so the choice of the
// "first" dominating one cannot matter), and the table has exactly the 270
// combinations with EQ3=2,EQ6=0 absent.
func V4SelfCheck() error {
	if len(v4Lookup) != 270 {
		return fmt.Errorf("lookup table has %d cells", len(v4Lookup))
	}
	for k := range v4Lookup {
		eq3, eq6 := (k/1000)%10, k%10
		if eq3 == 2 && eq6 == 0 {
			return fmt.Errorf("cell %06d should not exist", k)
		}
	}
	for lvl, mxs := range maxEQ1 {
		sum := -1
		for _, mx := range mxs {
			e := V4Eff{AV: mx.av, PR: mx.pr, UI: mx.ui}
			if got := e.MacroVector()[0]; got != lvl {
				return fmt.Errorf("EQ1 max %v classified %d want %d", mx, got, lvl)
			}
			s := int(mx.av + mx.pr + mx.ui)
			if sum >= 0 && s != sum {
				return fmt.Errorf("EQ1 level %d maxes differ in total severity", lvl)
			}
			sum = s
		}
	}
	for lvl, mxs := range maxEQ2 {
		sum := -1
		for _, mx := range mxs {
			e := V4Eff{AC: mx.ac, AT: mx.at}
			if got := e.MacroVector()[1]; got != lvl {
				return fmt.Errorf("EQ2 max %v classified %d want %d", mx, got, lvl)
			}
			s := int(mx.ac + mx.at)
			if sum >= 0 && s != sum {
				return fmt.Errorf("EQ2 level %d maxes differ", lvl)
			}
			sum = s
		}
	}
	for lvl, mxs := range maxEQ4 {
		for _, mx := range mxs {
			e := V4Eff{SC: mx.sc, SI: mx.si, SA: mx.sa}
			if got := e.MacroVector()[3]; got != lvl {
				return fmt.Errorf("EQ4 max %v classified %d want %d", mx, got, lvl)
			}
		}
	}
	for l3 := range maxEQ36 {
		for l6, mxs := range maxEQ36[l3] {
			sum := -1
			for _, mx := range mxs {
				e := V4Eff{VC: mx.vc, VI: mx.vi, VA: mx.va, CR: mx.cr, IR: mx.ir, AR: mx.ar}
				mv := e.MacroVector()
				if mv[2] != l3 || mv[5] != l6 {
					return fmt.Errorf("EQ3EQ6 max %v classified %d,%d want %d,%d", mx, mv[2], mv[5], l3, l6)
				}
				s := int(mx.vc + mx.vi + mx.va + mx.cr + mx.ir + mx.ar)
				if sum >= 0 && s != sum {
					return fmt.Errorf("EQ3EQ6 level %d,%d maxes differ", l3, l6)
				}
				sum = s
			}
		}
	}
	return nil
}
