package spec

import "fmt"

// Published worked examples (v2 guide 3.3.1-3.3.3, v3.x / v4.0 specification
// example documents, plus the vectors in the repository's own tests). The
// oracle must reproduce them; a failure is a broken ORACLE, never a verdict
// about go-cvss.
type example struct {
	ver     int
	vec     string
	b, t, e int // tenths; -1000 = not checked
}

const nc = -1000

var examples = []example{
	{V20, "AV:N/AC:L/Au:N/C:N/I:N/A:C/E:F/RL:OF/RC:C", 78, 64, 64},
	{V20, "AV:N/AC:L/Au:N/C:C/I:C/A:C/E:F/RL:OF/RC:C", 100, 83, 83},
	{V20, "AV:L/AC:H/Au:N/C:C/I:C/A:C/E:POC/RL:OF/RC:C", 62, 49, 49},
	{V20, "AV:N/AC:L/Au:N/C:N/I:N/A:C/E:F/RL:OF/RC:C/CDP:H/TD:H/CR:M/IR:M/AR:H", 78, 64, 92}, // guide 3.3.1 environmental example (CDP:H TD:H AR:H)
	{V20, "AV:N/AC:L/Au:N/C:N/I:N/A:C/E:F/RL:OF/RC:C/CDP:N/TD:N/CR:M/IR:M/AR:H", 78, 64, 0},
	{V31, "CVSS:3.1/AV:N/AC:L/PR:N/UI:R/S:C/C:L/I:L/A:N", 61, nc, nc},
	{V31, "CVSS:3.1/AV:N/AC:L/PR:L/UI:N/S:C/C:L/I:L/A:N", 64, nc, nc},
	{V31, "CVSS:3.1/AV:N/AC:H/PR:N/UI:R/S:U/C:L/I:N/A:N", 31, nc, nc},
	{V31, "CVSS:3.1/AV:N/AC:L/PR:N/UI:N/S:U/C:H/I:N/A:N", 75, nc, nc},
	{V31, "CVSS:3.1/AV:N/AC:L/PR:N/UI:N/S:U/C:H/I:H/A:H", 98, nc, nc},
	{V31, "CVSS:3.1/AV:N/AC:H/PR:N/UI:N/S:C/C:N/I:H/A:N", 68, nc, nc},
	{V31, "CVSS:3.1/AV:N/AC:L/PR:L/UI:R/S:C/C:L/I:L/A:N", 54, 54, 54},
	{V31, "CVSS:3.1/AV:N/AC:L/PR:H/UI:N/S:U/C:H/I:H/A:H", 72, 72, 72},
	{V31, "CVSS:3.1/AV:N/AC:L/PR:N/UI:N/S:C/C:H/I:H/A:H", 100, 100, 100},
	{V31, "CVSS:3.1/AV:A/AC:H/PR:L/UI:N/S:C/C:H/I:L/A:L/E:F/RL:U/RC:R/CR:H/IR:M/AR:L/MAV:N/MAC:L/MPR:N/MUI:N/MS:C/MC:H/MI:H/MA:H", 71, 67, 94},
	{V30, "CVSS:3.0/AV:N/AC:L/PR:N/UI:R/S:U/C:N/I:H/A:N", 65, 65, 65},
	{V30, "CVSS:3.0/AV:N/AC:L/PR:N/UI:N/S:U/C:H/I:H/A:H", 98, 98, 98},
	{V30, "CVSS:3.0/AV:N/AC:L/PR:N/UI:R/S:C/C:L/I:L/A:N", 61, nc, nc},
	{V30, "CVSS:3.0/AV:A/AC:H/PR:L/UI:N/S:C/C:H/I:L/A:L/E:F/RL:U/RC:R/CR:H/IR:M/AR:L/MAV:N/MAC:L/MPR:N/MUI:N/MS:C/MC:H/MI:H/MA:H", 71, 67, 94},
	{V40, "CVSS:4.0/AV:N/AC:L/AT:N/PR:N/UI:N/VC:H/VI:H/VA:H/SC:H/SI:H/SA:H", 100, nc, nc},
	{V40, "CVSS:4.0/AV:N/AC:L/AT:N/PR:N/UI:N/VC:N/VI:N/VA:N/SC:N/SI:N/SA:N", 0, nc, nc},
	{V40, "CVSS:4.0/AV:N/AC:L/AT:N/PR:N/UI:N/VC:H/VI:H/VA:H/SC:N/SI:N/SA:N", 93, nc, nc},
	{V40, "CVSS:4.0/AV:N/AC:L/AT:N/PR:N/UI:N/VC:N/VI:N/VA:N/SC:H/SI:H/SA:H", 79, nc, nc},
	{V40, "CVSS:4.0/AV:N/AC:L/AT:N/PR:N/UI:N/VC:H/VI:H/VA:H/SC:H/SI:H/SA:H/E:U", 91, nc, nc},
	{V40, "CVSS:4.0/AV:N/AC:L/AT:N/PR:N/UI:N/VC:H/VI:H/VA:H/SC:H/SI:H/SA:H/MVI:L/MSA:S", 98, nc, nc},
	{V40, "CVSS:4.0/AV:P/AC:H/AT:P/PR:H/UI:A/VC:L/VI:N/VA:N/SC:N/SI:N/SA:N", 10, nc, nc},
	{V40, "CVSS:4.0/AV:L/AC:L/AT:N/PR:L/UI:P/VC:N/VI:H/VA:H/SC:N/SI:L/SA:L", 52, nc, nc},
	{V40, "CVSS:4.0/AV:L/AC:L/AT:N/PR:L/UI:P/VC:N/VI:H/VA:H/SC:N/SI:L/SA:L/E:P/CR:H/IR:M/AR:H/MAV:A/MAT:P/MPR:N/MVI:H/MVA:N/MSI:H/MSA:N/S:N/V:C/U:Amber", 47, nc, nc},
	{V40, "CVSS:4.0/AV:N/AC:H/AT:N/PR:H/UI:N/VC:N/VI:N/VA:H/SC:H/SI:H/SA:H/CR:L/IR:L/AR:L", 58, nc, nc},
	// specification examples document
	{V40, "CVSS:4.0/AV:L/AC:L/AT:P/PR:L/UI:N/VC:H/VI:H/VA:H/SC:N/SI:N/SA:N", 73, nc, nc},
	{V40, "CVSS:4.0/AV:N/AC:L/AT:P/PR:N/UI:P/VC:H/VI:H/VA:H/SC:N/SI:N/SA:N", 77, nc, nc},
	{V40, "CVSS:4.0/AV:N/AC:L/AT:N/PR:N/UI:N/VC:H/VI:L/VA:L/SC:N/SI:N/SA:N/E:A", 88, nc, nc},
}

// SelfTest checks the oracle against the published examples and its own structural facts.
func SelfTest() error {
	for _, v := range Versions {
		if !v.ModListsShifted() {
			return fmt.Errorf("vocabulary %s: Modified lists are not X+base", v.Name)
		}
	}
	if err := V4SelfCheck(); err != nil {
		return err
	}
	for _, ex := range examples {
		v := Versions[ex.ver]
		ok, a, _ := v.Recognise(ex.vec)
		if !ok {
			return fmt.Errorf("example %q not recognised", ex.vec)
		}
		if c := v.Canonical(a); c != ex.vec {
			return fmt.Errorf("example %q canonicalises to %q", ex.vec, c)
		}
		switch ex.ver {
		case V20:
			r := V2().Score(a)
			if !r.Base.Has(ex.b) || !r.Temporal.Has(ex.t) || !r.Env.Has(ex.e) {
				return fmt.Errorf("v2 example %q: oracle %v %v %v want %d %d %d", ex.vec, r.Base.List(), r.Temporal.List(), r.Env.List(), ex.b, ex.t, ex.e)
			}
		case V30, V31:
			r := V3(ex.ver).Score(a)
			if !r.Base.Has(ex.b) || (ex.t != nc && !r.Temporal.Has(ex.t)) || (ex.e != nc && !r.Env.Has(ex.e)) {
				return fmt.Errorf("v3 example %q: oracle %v %v %v want %d %d %d", ex.vec, r.Base, r.Temporal, r.Env, ex.b, ex.t, ex.e)
			}
		case V40:
			r := V4Score(V4Effective(a))
			if r.K != ex.b {
				return fmt.Errorf("v4 example %q: oracle %d want %d", ex.vec, r.K, ex.b)
			}
		}
	}
	return nil
}
