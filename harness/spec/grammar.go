package spec

import "strings"

// Recognise decides membership of s in the vector language of version v,
// deliberately naively (strings.Split + explicit checks, in the order the
// grammar is stated). On acceptance it returns the metric assignment the
// string denotes (omitted optional metrics = "not defined") and, per metric,
// whether it was written explicitly.
func (v *Version) Recognise(s string) (ok bool, a Assign, explicit []bool) {
	switch v.ID {
	case V20:
		return v.recogniseV2(s)
	case V30, V31:
		return v.recogniseV3(s)
	default:
		return v.recogniseV4(s)
	}
}

// element must be exactly "abv:value" with value in the metric's set.
func (v *Version) element(el string, m int) int {
	me := &v.Metrics[m]
	if !strings.HasPrefix(el, me.Abv+":") {
		return -1
	}
	return v.ValueIndex(m, el[len(me.Abv)+1:])
}

func (v *Version) recogniseV2(s string) (bool, Assign, []bool) {
	parts := strings.Split(s, "/")
	var order []int
	switch len(parts) {
	case 6:
		order = []int{0, 1, 2, 3, 4, 5}
	case 9:
		order = []int{0, 1, 2, 3, 4, 5, 6, 7, 8}
	case 11:
		order = []int{0, 1, 2, 3, 4, 5, 9, 10, 11, 12, 13}
	case 14:
		order = []int{0, 1, 2, 3, 4, 5, 6, 7, 8, 9, 10, 11, 12, 13}
	default:
		return false, nil, nil
	}
	a := v.ZeroAssign()
	ex := make([]bool, v.N())
	for i, el := range parts {
		vi := v.element(el, order[i])
		if vi < 0 {
			return false, nil, nil
		}
		a[order[i]] = uint8(vi)
		ex[order[i]] = true
	}
	return true, a, ex
}

func (v *Version) recogniseV3(s string) (bool, Assign, []bool) {
	if !strings.HasPrefix(s, v.Header) {
		return false, nil, nil
	}
	parts := strings.Split(s[len(v.Header):], "/")
	a := v.ZeroAssign()
	ex := make([]bool, v.N())
	for _, el := range parts {
		c := strings.IndexByte(el, ':')
		if c < 0 {
			return false, nil, nil
		}
		m := v.Index(el[:c])
		if m < 0 || ex[m] {
			return false, nil, nil
		}
		vi := v.ValueIndex(m, el[c+1:])
		if vi < 0 {
			return false, nil, nil
		}
		a[m] = uint8(vi)
		ex[m] = true
	}
	for m := range v.Metrics {
		if v.Metrics[m].Mandatory && !ex[m] {
			return false, nil, nil
		}
	}
	return true, a, ex
}

func (v *Version) recogniseV4(s string) (bool, Assign, []bool) {
	if !strings.HasPrefix(s, v.Header) {
		return false, nil, nil
	}
	rest := s[len(v.Header):]
	if !strings.HasPrefix(rest, "/") {
		return false, nil, nil
	}
	parts := strings.Split(rest[1:], "/")
	a := v.ZeroAssign()
	ex := make([]bool, v.N())
	next := 0 // next admissible metric index
	for _, el := range parts {
		c := strings.IndexByte(el, ':')
		if c < 0 {
			return false, nil, nil
		}
		m := v.Index(el[:c])
		if m < 0 || m < next {
			return false, nil, nil
		}
		// mandatory metrics may not be skipped
		for k := next; k < m; k++ {
			if v.Metrics[k].Mandatory {
				return false, nil, nil
			}
		}
		vi := v.ValueIndex(m, el[c+1:])
		if vi < 0 {
			return false, nil, nil
		}
		a[m] = uint8(vi)
		ex[m] = true
		next = m + 1
	}
	for m := range v.Metrics {
		if v.Metrics[m].Mandatory && !ex[m] {
			return false, nil, nil
		}
	}
	return true, a, ex
}

// Canonical returns the canonical spelling of assignment a: header, metrics
// in specification order, "not defined" optional metrics removed (v2.0: a
// group is dropped only when all its metrics are ND, otherwise written in full).
func (v *Version) Canonical(a Assign) string {
	var b strings.Builder
	b.WriteString(v.Header)
	first := v.ID != V40 // v4 header has no trailing slash: every element is "/x:y"
	emit := func(m int) {
		if !first {
			b.WriteByte('/')
		}
		first = false
		b.WriteString(v.Metrics[m].Abv)
		b.WriteByte(':')
		b.WriteString(v.Metrics[m].Values[a[m]])
	}
	if v.ID == V20 {
		for m := 0; m < 6; m++ {
			emit(m)
		}
		for _, g := range [][2]int{{6, 9}, {9, 14}} {
			any := false
			for m := g[0]; m < g[1]; m++ {
				if a[m] != 0 {
					any = true
				}
			}
			if any {
				for m := g[0]; m < g[1]; m++ {
					emit(m)
				}
			}
		}
		return b.String()
	}
	for m := range v.Metrics {
		if v.Metrics[m].Mandatory || a[m] != 0 {
			emit(m)
		}
	}
	return b.String()
}

// Spell writes assignment a as a (generally non canonical) accepted string:
// explicit[m] forces an optional "not defined" metric to be written; perm, if
// not nil (v3 only), gives the order of the written metrics.
func (v *Version) Spell(a Assign, explicit []bool, perm []int) string {
	var b strings.Builder
	b.WriteString(v.Header)
	first := v.ID != V40
	emit := func(m int) {
		if !first {
			b.WriteByte('/')
		}
		first = false
		b.WriteString(v.Metrics[m].Abv)
		b.WriteByte(':')
		b.WriteString(v.Metrics[m].Values[a[m]])
	}
	written := func(m int) bool {
		if v.Metrics[m].Mandatory || a[m] != 0 {
			return true
		}
		return explicit != nil && explicit[m]
	}
	if v.ID == V20 {
		for m := 0; m < 6; m++ {
			emit(m)
		}
		for _, g := range [][2]int{{6, 9}, {9, 14}} {
			any := false
			for m := g[0]; m < g[1]; m++ {
				if written(m) {
					any = true
				}
			}
			if any {
				for m := g[0]; m < g[1]; m++ {
					emit(m)
				}
			}
		}
		return b.String()
	}
	if perm != nil && (v.ID == V30 || v.ID == V31) {
		for _, m := range perm {
			if written(m) {
				emit(m)
			}
		}
		return b.String()
	}
	for m := range v.Metrics {
		if written(m) {
			emit(m)
		}
	}
	return b.String()
}
