// Package spec is the reference model: vocabulary, grammar recognisers,
// canonical form and exact scoring oracles for CVSS v2.0 / v3.0 / v3.1 / v4.0,
// written from the FIRST specification documents. It does not import go-cvss
// and shares no table or layout with it.
package spec

import "strings"

const (
	V20 = iota
	V30
	V31
	V40
	NVersions
)

// Groups.
const (
	GBase     = iota
	GTemporal // v4: threat
	GEnv
	GSupp
)

// Metric describes one metric of one version.
type Metric struct {
	Abv       string
	Values    []string // for optional metrics Values[0] is the "not defined" value
	Mandatory bool
	Group     int
	// Sev[i] is the severity rank of Values[i] (higher = more severe, i.e. never
	// a lower score); -1 for the "not defined" value, which is not a rung.
	Sev []int
	// BaseOf is the index of the base metric a Modified metric overrides, -1 otherwise.
	BaseOf int
}

// Version is the vocabulary of one CVSS version.
type Version struct {
	ID      int
	Name    string
	Header  string
	ND      string
	Metrics []Metric
	idx     map[string]int
}

// Assign holds one value index per metric, in Metrics order.
type Assign []uint8

func (v *Version) Index(abv string) int {
	if i, ok := v.idx[abv]; ok {
		return i
	}
	return -1
}

func (v *Version) N() int { return len(v.Metrics) }

// ValueIndex returns the index of value in metric m's value list, or -1.
func (v *Version) ValueIndex(m int, value string) int {
	for i, s := range v.Metrics[m].Values {
		if s == value {
			return i
		}
	}
	return -1
}

// Defined tells whether metric m carries a defined value in a.
func (v *Version) Defined(a Assign, m int) bool {
	return v.Metrics[m].Mandatory || a[m] != 0
}

// ZeroAssign is the assignment with the first value for every metric.
func (v *Version) ZeroAssign() Assign { return make(Assign, len(v.Metrics)) }

func (a Assign) Clone() Assign { return append(Assign(nil), a...) }

func (a Assign) Key() string { return string(a) }

// m builds a metric; sev lists the values from least to most severe ("" = no order).
func mk(abv, values string, mandatory bool, group int, sev string) Metric {
	vals := strings.Split(values, " ")
	me := Metric{Abv: abv, Values: vals, Mandatory: mandatory, Group: group, BaseOf: -1}
	me.Sev = make([]int, len(vals))
	for i := range me.Sev {
		me.Sev[i] = -1
	}
	if sev != "" {
		for r, s := range strings.Split(sev, " ") {
			found := false
			for i, x := range vals {
				if x == s {
					me.Sev[i] = r
					found = true
				}
			}
			if !found {
				panic("spec: severity value " + s + " not in " + abv)
			}
		}
	}
	return me
}

func build(id int, name, header, nd string, ms []Metric, mods map[string]string) *Version {
	v := &Version{ID: id, Name: name, Header: header, ND: nd, Metrics: ms, idx: map[string]int{}}
	for i, m := range ms {
		if _, dup := v.idx[m.Abv]; dup {
			panic("spec: duplicate metric " + m.Abv)
		}
		v.idx[m.Abv] = i
		if !m.Mandatory && m.Values[0] != nd {
			panic("spec: optional metric must start with ND: " + m.Abv)
		}
	}
	for mod, base := range mods {
		v.Metrics[v.idx[mod]].BaseOf = v.idx[base]
	}
	return v
}

// Versions, indexed by V20..V40.
var Versions [NVersions]*Version

func init() {
	// CVSS v2.0 guide, section 2 (metrics) and 2.4 (vector): fixed order.
	Versions[V20] = build(V20, "2.0", "", "ND", []Metric{
		mk("AV", "L A N", true, GBase, "L A N"),
		mk("AC", "H M L", true, GBase, "H M L"),
		mk("Au", "M S N", true, GBase, "M S N"),
		mk("C", "N P C", true, GBase, "N P C"),
		mk("I", "N P C", true, GBase, "N P C"),
		mk("A", "N P C", true, GBase, "N P C"),
		mk("E", "ND U POC F H", false, GTemporal, "U POC F H"),
		mk("RL", "ND OF TF W U", false, GTemporal, "OF TF W U"),
		mk("RC", "ND UC UR C", false, GTemporal, "UC UR C"),
		mk("CDP", "ND N L LM MH H", false, GEnv, "N L LM MH H"),
		mk("TD", "ND N L M H", false, GEnv, "N L M H"),
		mk("CR", "ND L M H", false, GEnv, "L M H"),
		mk("IR", "ND L M H", false, GEnv, "L M H"),
		mk("AR", "ND L M H", false, GEnv, "L M H"),
	}, nil)

	v3 := func(id int, name, header string) *Version {
		return build(id, name, header, "X", []Metric{
			mk("AV", "N A L P", true, GBase, "P L A N"),
			mk("AC", "L H", true, GBase, "H L"),
			mk("PR", "N L H", true, GBase, "H L N"),
			mk("UI", "N R", true, GBase, "R N"),
			mk("S", "U C", true, GBase, "U C"),
			mk("C", "H L N", true, GBase, "N L H"),
			mk("I", "H L N", true, GBase, "N L H"),
			mk("A", "H L N", true, GBase, "N L H"),
			mk("E", "X H F P U", false, GTemporal, "U P F H"),
			mk("RL", "X U W T O", false, GTemporal, "O T W U"),
			mk("RC", "X C R U", false, GTemporal, "U R C"),
			mk("CR", "X H M L", false, GEnv, "L M H"),
			mk("IR", "X H M L", false, GEnv, "L M H"),
			mk("AR", "X H M L", false, GEnv, "L M H"),
			mk("MAV", "X N A L P", false, GEnv, "P L A N"),
			mk("MAC", "X L H", false, GEnv, "H L"),
			mk("MPR", "X N L H", false, GEnv, "H L N"),
			mk("MUI", "X N R", false, GEnv, "R N"),
			mk("MS", "X U C", false, GEnv, "U C"),
			mk("MC", "X H L N", false, GEnv, "N L H"),
			mk("MI", "X H L N", false, GEnv, "N L H"),
			mk("MA", "X H L N", false, GEnv, "N L H"),
		}, map[string]string{"MAV": "AV", "MAC": "AC", "MPR": "PR", "MUI": "UI", "MS": "S", "MC": "C", "MI": "I", "MA": "A"})
	}
	Versions[V30] = v3(V30, "3.0", "CVSS:3.0/")
	Versions[V31] = v3(V31, "3.1", "CVSS:3.1/")

	// CVSS v4.0 specification, section 7 (vector string, Table 23): fixed order.
	Versions[V40] = build(V40, "4.0", "CVSS:4.0", "X", []Metric{
		mk("AV", "N A L P", true, GBase, "P L A N"),
		mk("AC", "L H", true, GBase, "H L"),
		mk("AT", "N P", true, GBase, "P N"),
		mk("PR", "N L H", true, GBase, "H L N"),
		mk("UI", "N P A", true, GBase, "A P N"),
		mk("VC", "H L N", true, GBase, "N L H"),
		mk("VI", "H L N", true, GBase, "N L H"),
		mk("VA", "H L N", true, GBase, "N L H"),
		mk("SC", "H L N", true, GBase, "N L H"),
		mk("SI", "H L N", true, GBase, "N L H"),
		mk("SA", "H L N", true, GBase, "N L H"),
		mk("E", "X A P U", false, GTemporal, "U P A"),
		mk("CR", "X H M L", false, GEnv, "L M H"),
		mk("IR", "X H M L", false, GEnv, "L M H"),
		mk("AR", "X H M L", false, GEnv, "L M H"),
		mk("MAV", "X N A L P", false, GEnv, "P L A N"),
		mk("MAC", "X L H", false, GEnv, "H L"),
		mk("MAT", "X N P", false, GEnv, "P N"),
		mk("MPR", "X N L H", false, GEnv, "H L N"),
		mk("MUI", "X N P A", false, GEnv, "A P N"),
		mk("MVC", "X H L N", false, GEnv, "N L H"),
		mk("MVI", "X H L N", false, GEnv, "N L H"),
		mk("MVA", "X H L N", false, GEnv, "N L H"),
		mk("MSC", "X H L N", false, GEnv, "N L H"),
		mk("MSI", "X S H L N", false, GEnv, "N L H S"),
		mk("MSA", "X S H L N", false, GEnv, "N L H S"),
		mk("S", "X N P", false, GSupp, ""),
		mk("AU", "X N Y", false, GSupp, ""),
		mk("R", "X A U I", false, GSupp, ""),
		mk("V", "X D C", false, GSupp, ""),
		mk("RE", "X L M H", false, GSupp, ""),
		mk("U", "X Clear Green Amber Red", false, GSupp, ""),
	}, map[string]string{"MAV": "AV", "MAC": "AC", "MAT": "AT", "MPR": "PR", "MUI": "UI", "MVC": "VC", "MVI": "VI", "MVA": "VA", "MSC": "SC", "MSI": "SI", "MSA": "SA"})
}

// SpaceSize returns the number of assignments of the version as a float (for evidence text).
func (v *Version) SpaceSize() float64 {
	n := 1.0
	for _, m := range v.Metrics {
		n *= float64(len(m.Values))
	}
	return n
}
