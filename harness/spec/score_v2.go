package spec

import (
	"math/big"
	"sync"
)

// Exact model of the CVSS v2.0 guide equations (section 3.2.1-3.2.3).
// round_to_1_decimal is not defined on exact ties: both neighbours conform,
// and the two-valued result propagates through the nested roundings.

var v2W = map[string]map[string]*big.Rat{
	"AV":  {"L": rat("0.395"), "A": rat("0.646"), "N": rat("1.0")},
	"AC":  {"H": rat("0.35"), "M": rat("0.61"), "L": rat("0.71")},
	"Au":  {"M": rat("0.45"), "S": rat("0.56"), "N": rat("0.704")},
	"CIA": {"N": rat("0"), "P": rat("0.275"), "C": rat("0.660")},
	"E":   {"ND": rat("1"), "U": rat("0.85"), "POC": rat("0.9"), "F": rat("0.95"), "H": rat("1")},
	"RL":  {"ND": rat("1"), "OF": rat("0.87"), "TF": rat("0.9"), "W": rat("0.95"), "U": rat("1")},
	"RC":  {"ND": rat("1"), "UC": rat("0.9"), "UR": rat("0.95"), "C": rat("1")},
	"CDP": {"ND": rat("0"), "N": rat("0"), "L": rat("0.1"), "LM": rat("0.3"), "MH": rat("0.4"), "H": rat("0.5")},
	"TD":  {"ND": rat("1"), "N": rat("0"), "L": rat("0.25"), "M": rat("0.75"), "H": rat("1")},
	"REQ": {"ND": rat("1"), "L": rat("0.5"), "M": rat("1"), "H": rat("1.51")},
}

// KSet is a small set of integer tenths (may be negative).
type KSet struct {
	k [8]int16
	n uint8
}

func (s KSet) Len() int     { return int(s.n) }
func (s KSet) At(i int) int { return int(s.k[i]) }
func (s KSet) List() []int {
	r := make([]int, s.n)
	for i := range r {
		r[i] = int(s.k[i])
	}
	return r
}
func (s KSet) Has(k int) bool {
	for i := uint8(0); i < s.n; i++ {
		if int(s.k[i]) == k {
			return true
		}
	}
	return false
}
func (s *KSet) add(k int) {
	if !s.Has(k) {
		s.k[s.n] = int16(k)
		s.n++
	}
}
func kset(ks []int) KSet {
	var s KSet
	for _, k := range ks {
		s.add(k)
	}
	return s
}

// round1 returns the conforming one-decimal roundings of x (nearest tenth; both on a tie).
func round1(x *big.Rat) (ks []int, tie bool) {
	y := new(big.Rat).Mul(x, ten)
	// floor
	fl := new(big.Int).Div(y.Num(), y.Denom()) // Div = Euclidean: floor for positive denominators
	frac := new(big.Rat).Sub(y, new(big.Rat).SetInt(fl))
	k := int(fl.Int64())
	switch frac.Cmp(rat("1/2")) {
	case -1:
		return []int{k}, false
	case 1:
		return []int{k + 1}, false
	}
	return []int{k, k + 1}, true
}

type V2Model struct {
	V       *Version
	once    sync.Once
	impact  [3][3][3]*big.Rat          // Impact by [c][i][a]
	adj     [3][3][3][4][4][4]*big.Rat // AdjustedImpact by [c][i][a][cr][ir][ar]
	expl    [3][3][3]*big.Rat          // [av][ac][au]
	base    [729]KSet                  // base score
	adjBase []KSet                     // 27 expl x 27 cia x 64 req
	// temporal rounding: round1(k/10 * e*rl*rc) for k in -20..100
	tmul [121][5][5][4]KSet
	// env rounding: round1((t + (10-t)*cdp)*td), t in -20..100 tenths
	emul     [121][6][5]KSet
	TieCells int
}

var v2Model V2Model

func V2() *V2Model {
	v2Model.once.Do(v2Model.build)
	return &v2Model
}

const v2Off = 20 // table offset for negative tenths

func (m *V2Model) build() {
	v := Versions[V20]
	m.V = v
	cia := v.Metrics[v.Index("C")].Values
	req := v.Metrics[v.Index("CR")].Values
	avs, acs, aus := v.Metrics[0].Values, v.Metrics[1].Values, v.Metrics[2].Values
	w := v2W["CIA"]
	q := v2W["REQ"]
	for c := 0; c < 3; c++ {
		for i := 0; i < 3; i++ {
			for a := 0; a < 3; a++ {
				m.impact[c][i][a] = rmul(rat("10.41"), rsub(one, rmul(rsub(one, w[cia[c]]), rsub(one, w[cia[i]]), rsub(one, w[cia[a]]))))
				for cr := 0; cr < 4; cr++ {
					for ir := 0; ir < 4; ir++ {
						for ar := 0; ar < 4; ar++ {
							x := rmul(rat("10.41"), rsub(one, rmul(rsub(one, rmul(w[cia[c]], q[req[cr]])), rsub(one, rmul(w[cia[i]], q[req[ir]])), rsub(one, rmul(w[cia[a]], q[req[ar]])))))
							m.adj[c][i][a][cr][ir][ar] = rmin(ten, x)
						}
					}
				}
			}
		}
	}
	for av := 0; av < 3; av++ {
		for ac := 0; ac < 3; ac++ {
			for au := 0; au < 3; au++ {
				m.expl[av][ac][au] = rmul(rat("20"), v2W["AV"][avs[av]], v2W["AC"][acs[ac]], v2W["Au"][aus[au]])
			}
		}
	}
	baseEq := func(imp, ex *big.Rat) KSet {
		// BaseScore = round_to_1_decimal(((0.6*Impact)+(0.4*Exploitability)-1.5)*f(Impact)), f = 0 if Impact=0 else 1.176
		f := rat("1.176")
		if imp.Sign() == 0 {
			f = zero
		}
		x := rmul(rsub(radd(rmul(rat("0.6"), imp), rmul(rat("0.4"), ex)), rat("1.5")), f)
		ks, tie := round1(x)
		if tie {
			m.TieCells++
		}
		return kset(ks)
	}
	m.adjBase = make([]KSet, 27*27*64)
	for av := 0; av < 3; av++ {
		for ac := 0; ac < 3; ac++ {
			for au := 0; au < 3; au++ {
				ex := m.expl[av][ac][au]
				ei := (av*3+ac)*3 + au
				for c := 0; c < 3; c++ {
					for i := 0; i < 3; i++ {
						for a := 0; a < 3; a++ {
							ci := (c*3+i)*3 + a
							m.base[ei*27+ci] = baseEq(m.impact[c][i][a], ex)
							for cr := 0; cr < 4; cr++ {
								for ir := 0; ir < 4; ir++ {
									for ar := 0; ar < 4; ar++ {
										m.adjBase[(ei*27+ci)*64+(cr*4+ir)*4+ar] = baseEq(m.adj[c][i][a][cr][ir][ar], ex)
									}
								}
							}
						}
					}
				}
			}
		}
	}
	es, rls, rcs := v.Metrics[6].Values, v.Metrics[7].Values, v.Metrics[8].Values
	cdps, tds := v.Metrics[9].Values, v.Metrics[10].Values
	for k := -v2Off; k <= 100; k++ {
		kr := new(big.Rat).SetFrac64(int64(k), 10)
		for e := 0; e < 5; e++ {
			for rl := 0; rl < 5; rl++ {
				for rc := 0; rc < 4; rc++ {
					ks, tie := round1(rmul(kr, v2W["E"][es[e]], v2W["RL"][rls[rl]], v2W["RC"][rcs[rc]]))
					if tie {
						m.TieCells++
					}
					m.tmul[k+v2Off][e][rl][rc] = kset(ks)
				}
			}
		}
		for cdp := 0; cdp < 6; cdp++ {
			for td := 0; td < 5; td++ {
				// EnvironmentalScore = round_to_1_decimal((AdjustedTemporal+(10-AdjustedTemporal)*CDP)*TD)
				x := rmul(radd(kr, rmul(rsub(ten, kr), v2W["CDP"][cdps[cdp]])), v2W["TD"][tds[td]])
				ks, tie := round1(x)
				if tie {
					m.TieCells++
				}
				m.emul[k+v2Off][cdp][td] = kset(ks)
			}
		}
	}
}

type V2Result struct {
	Base, Temporal, Env KSet
	Impact, Expl        float64
	Tie                 bool // some rounding on the way was an exact tie (oracle two-valued)
}

// Score evaluates assignment a = AV AC Au C I A E RL RC CDP TD CR IR AR.
func (m *V2Model) Score(a Assign) V2Result {
	var r V2Result
	ei := (int(a[0])*3+int(a[1]))*3 + int(a[2])
	ci := (int(a[3])*3+int(a[4]))*3 + int(a[5])
	r.Base = m.base[ei*27+ci]
	r.Impact, _ = m.impact[a[3]][a[4]][a[5]].Float64()
	r.Expl, _ = m.expl[a[0]][a[1]][a[2]].Float64()
	r.Temporal = m.TemporalOf(r.Base, a[6], a[7], a[8])
	ab := m.adjBase[(ei*27+ci)*64+(int(a[11])*4+int(a[12]))*4+int(a[13])]
	r.Env = m.EnvOf(m.TemporalOf(ab, a[6], a[7], a[8]), a[9], a[10])
	r.Tie = r.Base.n > 1 || r.Temporal.n > 1 || r.Env.n > 1
	return r
}

// TemporalOf applies round_to_1_decimal(score*E*RL*RC) to every member of s.
func (m *V2Model) TemporalOf(s KSet, e, rl, rc uint8) KSet {
	var r KSet
	for i := 0; i < s.Len(); i++ {
		t := &m.tmul[s.At(i)+v2Off][e][rl][rc]
		for j := 0; j < t.Len(); j++ {
			r.add(t.At(j))
		}
	}
	return r
}

// EnvOf applies round_to_1_decimal((t+(10-t)*CDP)*TD) to every member of s.
func (m *V2Model) EnvOf(s KSet, cdp, td uint8) KSet {
	var r KSet
	for i := 0; i < s.Len(); i++ {
		t := &m.emul[s.At(i)+v2Off][cdp][td]
		for j := 0; j < t.Len(); j++ {
			r.add(t.At(j))
		}
	}
	return r
}
