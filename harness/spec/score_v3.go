package spec

import (
	"math/big"
	"sync"
)

// Exact-arithmetic model of the CVSS v3.0 / v3.1 equations (specification
// section 7.1-7.4 "Base/Temporal/Environmental Metrics Equations" and
// Appendix A "Floating Point Rounding" of v3.1), evaluated over the rationals.

func rat(s string) *big.Rat {
	r, ok := new(big.Rat).SetString(s)
	if !ok {
		panic("bad rational " + s)
	}
	return r
}

func rmul(xs ...*big.Rat) *big.Rat {
	r := new(big.Rat).SetInt64(1)
	for _, x := range xs {
		r.Mul(r, x)
	}
	return r
}
func radd(a, b *big.Rat) *big.Rat { return new(big.Rat).Add(a, b) }
func rsub(a, b *big.Rat) *big.Rat { return new(big.Rat).Sub(a, b) }
func rpow(a *big.Rat, n int) *big.Rat {
	r := new(big.Rat).SetInt64(1)
	for i := 0; i < n; i++ {
		r.Mul(r, a)
	}
	return r
}
func rmin(a, b *big.Rat) *big.Rat {
	if a.Cmp(b) <= 0 {
		return a
	}
	return b
}

var (
	one  = rat("1")
	ten  = rat("10")
	zero = rat("0")
)

// v3 weights, keyed by value string.
var v3W = map[string]map[string]*big.Rat{
	"AV":  {"N": rat("0.85"), "A": rat("0.62"), "L": rat("0.55"), "P": rat("0.2")},
	"AC":  {"L": rat("0.77"), "H": rat("0.44")},
	"UI":  {"N": rat("0.85"), "R": rat("0.62")},
	"CIA": {"H": rat("0.56"), "L": rat("0.22"), "N": rat("0")},
	"E":   {"X": rat("1"), "H": rat("1"), "F": rat("0.97"), "P": rat("0.94"), "U": rat("0.91")},
	"RL":  {"X": rat("1"), "U": rat("1"), "W": rat("0.97"), "T": rat("0.96"), "O": rat("0.95")},
	"RC":  {"X": rat("1"), "C": rat("1"), "R": rat("0.96"), "U": rat("0.92")},
	"REQ": {"X": rat("1"), "H": rat("1.5"), "M": rat("1"), "L": rat("0.5")},
}

func v3PR(pr string, changed bool) *big.Rat {
	switch pr {
	case "N":
		return rat("0.85")
	case "L":
		if changed {
			return rat("0.68")
		}
		return rat("0.62")
	case "H":
		if changed {
			return rat("0.5")
		}
		return rat("0.27")
	}
	panic("pr")
}

// Tenths is a set of conforming one-decimal results, as integer tenths.
type Tenths struct {
	K [2]int
	N int // 1 or 2
}

func (t Tenths) Has(k int) bool {
	for i := 0; i < t.N; i++ {
		if t.K[i] == k {
			return true
		}
	}
	return false
}
func one1(k int) Tenths { return Tenths{K: [2]int{k, 0}, N: 1} }
func (t Tenths) add(k int) Tenths {
	if t.Has(k) {
		return t
	}
	if t.N >= 2 {
		panic("Tenths overflow")
	}
	t.K[t.N] = k
	t.N++
	return t
}

var (
	big100000 = big.NewInt(100000)
	big10000  = big.NewInt(10000)
)

// roundupV31 is the v3.1 Appendix A Roundup applied to the exact value x >= 0:
// int_input = round_to_nearest_integer(x*100000); if int_input % 10000 == 0
// then int_input/100000 else (floor(int_input/10000)+1)/10. A half-way
// round_to_nearest_integer is unspecified: both choices are returned.
// ceilTenth is the v3.0 wording ("smallest number, specified to one decimal
// place, that is equal to or higher than its input").
func roundupV31(x *big.Rat) (t Tenths, halfway bool) {
	y := new(big.Rat).Mul(x, new(big.Rat).SetInt(big100000))
	// floor(y) and the fractional part
	fl := new(big.Int).Quo(y.Num(), y.Denom()) // x>=0 so Quo is floor
	frac := new(big.Rat).Sub(y, new(big.Rat).SetInt(fl))
	cands := []*big.Int{}
	switch frac.Cmp(rat("1/2")) {
	case -1:
		cands = append(cands, fl)
	case 1:
		cands = append(cands, new(big.Int).Add(fl, big.NewInt(1)))
	default:
		halfway = true
		cands = append(cands, fl, new(big.Int).Add(fl, big.NewInt(1)))
	}
	for i, c := range cands {
		q, r := new(big.Int).QuoRem(c, big10000, new(big.Int))
		k := int(q.Int64())
		if r.Sign() != 0 {
			k++
		}
		if i == 0 {
			t = one1(k)
		} else {
			t = t.add(k)
		}
	}
	return t, halfway
}

func ceilTenth(x *big.Rat) int {
	y := new(big.Rat).Mul(x, ten)
	q, r := new(big.Int).QuoRem(y.Num(), y.Denom(), new(big.Int))
	k := int(q.Int64())
	if r.Sign() > 0 {
		k++
	}
	return k
}

// V3Model holds the precomputed exact model for one of the two v3 versions.
type V3Model struct {
	V    *Version
	once sync.Once
	// exact sub-scores
	mimpact [2][3][3][3][4][4][4]*big.Rat // ModifiedImpact by [ms][mc][mi][ma][cr][ir][ar]
	capped  [2][3][3][3][4][4][4]bool     // MISS cap 0.915 was binding
	bimpact [2][3][3][3]*big.Rat          // base Impact by [s][c][i][a]
	expl    [4][2][3][2][2]*big.Rat       // [av][ac][pr][ui][s]
	// rounded tables
	baseT   []Tenths             // base score by baseIdx
	modT    []Tenths             // Roundup(min(f*(MI+ME),10)) by modIdx (before the temporal multipliers)
	modFlag []uint8              // bit0: ModifiedImpact<=0, bit1: capped at 10
	mulT    [101][5][5][4]Tenths // Roundup(k/10 * E*RL*RC)
	// number of table cells where an unspecified rounding case made the oracle two-valued
	AmbiguousCells int
}

var v3Models = [NVersions]*V3Model{V30: {}, V31: {}}

// V3 returns the (lazily built) model of version ver.
func V3(ver int) *V3Model {
	if ver != V30 && ver != V31 {
		panic("V3 model for non-v3 version")
	}
	m := v3Models[ver]
	m.once.Do(func() { m.build(Versions[ver]) })
	return m
}

func baseIdx(av, ac, pr, ui, s, c, i, a uint8) int {
	return ((((((int(av)*2+int(ac))*3+int(pr))*2+int(ui))*2+int(s))*3+int(c))*3+int(i))*3 + int(a)
}
func modIdx(av, ac, pr, ui, s, c, i, a, cr, ir, ar uint8) int {
	return ((baseIdx(av, ac, pr, ui, s, c, i, a)*4+int(cr))*4+int(ir))*4 + int(ar)
}

func (m *V3Model) build(v *Version) {
	m.V = v
	cia := v.Metrics[v.Index("C")].Values
	req := v.Metrics[v.Index("CR")].Values
	w := v3W["CIA"]
	q := v3W["REQ"]
	for s := 0; s < 2; s++ {
		for c := 0; c < 3; c++ {
			for i := 0; i < 3; i++ {
				for a := 0; a < 3; a++ {
					for cr := 0; cr < 4; cr++ {
						for ir := 0; ir < 4; ir++ {
							for ar := 0; ar < 4; ar++ {
								t := rmul(rsub(one, rmul(q[req[cr]], w[cia[c]])), rsub(one, rmul(q[req[ir]], w[cia[i]])), rsub(one, rmul(q[req[ar]], w[cia[a]])))
								raw := rsub(one, t)
								miss := rmin(raw, rat("0.915"))
								m.capped[s][c][i][a][cr][ir][ar] = raw.Cmp(rat("0.915")) > 0
								var mi *big.Rat
								switch {
								case s == 0:
									mi = rmul(rat("6.42"), miss)
								case v.ID == V30:
									// v3.0 section 8.3
									mi = rsub(rmul(rat("7.52"), rsub(miss, rat("0.029"))), rmul(rat("3.25"), rpow(rsub(miss, rat("0.02")), 15)))
								default:
									// v3.1 section 7.3
									mi = rsub(rmul(rat("7.52"), rsub(miss, rat("0.029"))), rmul(rat("3.25"), rpow(rsub(rmul(miss, rat("0.9731")), rat("0.02")), 13)))
								}
								m.mimpact[s][c][i][a][cr][ir][ar] = mi
								if cr == 0 && ir == 0 && ar == 0 {
									// Base Impact: ISS = 1-(1-C)(1-I)(1-A); unchanged 6.42*ISS,
									// changed 7.52*(ISS-0.029)-3.25*(ISS-0.02)^15 in BOTH 3.0 and 3.1.
									if s == 0 {
										m.bimpact[s][c][i][a] = rmul(rat("6.42"), raw)
									} else {
										m.bimpact[s][c][i][a] = rsub(rmul(rat("7.52"), rsub(raw, rat("0.029"))), rmul(rat("3.25"), rpow(rsub(raw, rat("0.02")), 15)))
									}
								}
							}
						}
					}
				}
			}
		}
	}
	avs := v.Metrics[v.Index("AV")].Values
	acs := v.Metrics[v.Index("AC")].Values
	prs := v.Metrics[v.Index("PR")].Values
	uis := v.Metrics[v.Index("UI")].Values
	for av := 0; av < 4; av++ {
		for ac := 0; ac < 2; ac++ {
			for pr := 0; pr < 3; pr++ {
				for ui := 0; ui < 2; ui++ {
					for s := 0; s < 2; s++ {
						m.expl[av][ac][pr][ui][s] = rmul(rat("8.22"), v3W["AV"][avs[av]], v3W["AC"][acs[ac]], v3PR(prs[pr], s == 1), v3W["UI"][uis[ui]])
					}
				}
			}
		}
	}
	es := v.Metrics[v.Index("E")].Values
	rls := v.Metrics[v.Index("RL")].Values
	rcs := v.Metrics[v.Index("RC")].Values
	for k := 0; k <= 100; k++ {
		for e := 0; e < 5; e++ {
			for rl := 0; rl < 5; rl++ {
				for rc := 0; rc < 4; rc++ {
					x := rmul(new(big.Rat).SetFrac64(int64(k), 10), v3W["E"][es[e]], v3W["RL"][rls[rl]], v3W["RC"][rcs[rc]])
					m.mulT[k][e][rl][rc] = m.roundup(x)
				}
			}
		}
	}
	m.baseT = make([]Tenths, 2592)
	m.modT = make([]Tenths, 2592*64)
	m.modFlag = make([]uint8, 2592*64)
	f108 := rat("1.08")
	fin := func(imp, ex *big.Rat, s int) (Tenths, uint8) {
		if imp.Sign() <= 0 {
			return one1(0), 1
		}
		sum := radd(imp, ex)
		if s == 1 {
			sum = rmul(f108, sum)
		}
		var fl uint8
		if sum.Cmp(ten) > 0 {
			fl = 2
			sum = ten
		}
		return m.roundup(sum), fl
	}
	var wg sync.WaitGroup
	for av := 0; av < 4; av++ {
		wg.Add(1)
		go func(av int) {
			defer wg.Done()
			for ac := 0; ac < 2; ac++ {
				for pr := 0; pr < 3; pr++ {
					for ui := 0; ui < 2; ui++ {
						for s := 0; s < 2; s++ {
							ex := m.expl[av][ac][pr][ui][s]
							for c := 0; c < 3; c++ {
								for i := 0; i < 3; i++ {
									for a := 0; a < 3; a++ {
										bi := baseIdx(uint8(av), uint8(ac), uint8(pr), uint8(ui), uint8(s), uint8(c), uint8(i), uint8(a))
										m.baseT[bi], _ = fin(m.bimpact[s][c][i][a], ex, s)
										for cr := 0; cr < 4; cr++ {
											for ir := 0; ir < 4; ir++ {
												for ar := 0; ar < 4; ar++ {
													mi := (bi*4+cr)*4*4 + ir*4 + ar
													m.modT[mi], m.modFlag[mi] = fin(m.mimpact[s][c][i][a][cr][ir][ar], ex, s)
												}
											}
										}
									}
								}
							}
						}
					}
				}
			}
		}(av)
	}
	wg.Wait()
	for _, t := range m.baseT {
		if t.N > 1 {
			m.AmbiguousCells++
		}
	}
	for _, t := range m.modT {
		if t.N > 1 {
			m.AmbiguousCells++
		}
	}
	for k := range m.mulT {
		for e := range m.mulT[k] {
			for rl := range m.mulT[k][e] {
				for rc := range m.mulT[k][e][rl] {
					if m.mulT[k][e][rl][rc].N > 1 {
						m.AmbiguousCells++
					}
				}
			}
		}
	}
}

// roundup is the version's Roundup of an exact non-negative value.
func (m *V3Model) roundup(x *big.Rat) Tenths {
	t, _ := roundupV31(x)
	if m.V.ID == V30 {
		// v3.0 words Roundup as a plain ceiling to one decimal; where that differs
		// from the 3.1 algorithm either reading is accepted.
		if c := ceilTenth(x); !t.Has(c) && t.N < 2 {
			t = t.add(c)
		}
	}
	return t
}

// V3Result is what the specification yields for an assignment.
type V3Result struct {
	Base, Temporal, Env Tenths
	Impact, Expl        float64 // unrounded base sub-scores
	MISSCapped          bool
	ModImpactNonPos     bool
	Capped10            bool
	EffClass            int // index of the effective environmental class (modIdx*100 + temporal)
}

func (m *V3Model) times(t Tenths, e, rl, rc uint8) Tenths {
	var r Tenths
	for i := 0; i < t.N; i++ {
		tt := m.mulT[t.K[i]][e][rl][rc]
		for j := 0; j < tt.N; j++ {
			if r.N == 0 {
				r = one1(tt.K[j])
			} else {
				r = r.add(tt.K[j])
			}
		}
	}
	return r
}

// Score evaluates the three scores for the full assignment a (value indexes per vocab order).
func (m *V3Model) Score(a Assign) V3Result {
	// vocabulary order: AV AC PR UI S C I A E RL RC CR IR AR MAV MAC MPR MUI MS MC MI MA
	var r V3Result
	bi := baseIdx(a[0], a[1], a[2], a[3], a[4], a[5], a[6], a[7])
	r.Base = m.baseT[bi]
	r.Impact, _ = m.bimpact[a[4]][a[5]][a[6]][a[7]].Float64()
	r.Expl, _ = m.expl[a[0]][a[1]][a[2]][a[3]][a[4]].Float64()
	e, rl, rc := a[8], a[9], a[10]
	r.Temporal = m.times(r.Base, e, rl, rc)
	// Environmental: the Modified metric if defined, else the base metric
	// (Modified value lists are the base lists with X prepended).
	eff := func(mod, base int) uint8 {
		if a[mod] != 0 {
			return a[mod] - 1
		}
		return a[base]
	}
	av, ac, pr, ui, s := eff(14, 0), eff(15, 1), eff(16, 2), eff(17, 3), eff(18, 4)
	c, i, aa := eff(19, 5), eff(20, 6), eff(21, 7)
	mi := modIdx(av, ac, pr, ui, s, c, i, aa, a[11], a[12], a[13])
	r.EffClass = mi*100 + (int(e)*5+int(rl))*4 + int(rc)
	fl := m.modFlag[mi]
	r.ModImpactNonPos = fl&1 != 0
	r.Capped10 = fl&2 != 0
	r.MISSCapped = m.capped[s][c][i][aa][a[11]][a[12]][a[13]]
	if r.ModImpactNonPos {
		r.Env = one1(0)
	} else {
		r.Env = m.times(m.modT[mi], e, rl, rc)
	}
	return r
}

// ModListsShifted asserts the vocabulary fact used by eff(): every Modified
// value list equals "X" + the base list. Called by the oracle self test.
func (v *Version) ModListsShifted() bool {
	for _, me := range v.Metrics {
		if me.BaseOf < 0 {
			continue
		}
		b := v.Metrics[me.BaseOf].Values
		if v.ID == V40 && (me.Abv == "MSI" || me.Abv == "MSA") {
			// X S H L N vs H L N
			if len(me.Values) != 5 || me.Values[1] != "S" {
				return false
			}
			for i := range b {
				if me.Values[i+2] != b[i] {
					return false
				}
			}
			continue
		}
		if len(me.Values) != len(b)+1 {
			return false
		}
		for i := range b {
			if me.Values[i+1] != b[i] {
				return false
			}
		}
	}
	return true
}
