package mon

import (
	"fmt"
	"runtime"
	"strings"

	"verifharness/gen"
	"verifharness/probe"
	"verifharness/spec"
)

// ---------------------------------------------------------------- C17

func CheckC17(c *Ctx) {
	prev := runtime.GOMAXPROCS(1)
	defer runtime.GOMAXPROCS(prev)
	const warm, n = 50, 200
	remeasured := 0
	hist := map[string]int64{}
	measure := func(ver string, op probe.AllocOp) {
		var best float64 = -1
		ok := false
		for try := 0; try < 4; try++ {
			m := probe.MeasureAllocs(op.F, warm, n)
			if best < 0 || m < best {
				best = m
			}
			// stray runtime allocations only ever ADD: the minimum over repetitions is the estimate
			if op.Exact {
				ok = best >= float64(op.Budget)-0.02 && best <= float64(op.Budget)+0.02
				if best < float64(op.Budget)-0.02 {
					break // fewer than the exact budget: a real deviation, repetitions cannot raise a minimum
				}
			} else {
				ok = best <= float64(op.Budget)+0.02
			}
			if ok {
				break
			}
			remeasured++
		}
		c.Evals += warm + n
		c.Counts["measured:"+op.Name]++
		hist[fmt.Sprintf("%s=%.2f", op.Name, best)]++
		if !ok {
			rel := "at most"
			if op.Exact {
				rel = "exactly"
			}
			steps := []Step{{Op: "parse", S: op.Arg}}
			if op.Name == "Get" || op.Name == "Set" {
				steps = []Step{{Op: "new"}}
			}
			c.Violate(Violation{Kind: "allocation-budget-exceeded", Version: ver, Steps: steps, Expected: fmt.Sprintf("%s(%s): %s %d heap allocation(s) per call", op.Name, op.Arg, rel, op.Budget),
				Observed: fmt.Sprintf("%.2f per call (minimum of the means of up to 4 runs of %d calls, GOMAXPROCS=1, GC off)", best, n), Detail: map[string]any{"op": op.Name}})
		}
	}
	for vi, v := range spec.Versions {
		r := c.Rand("inputs", v.Name)
		var inputs []string
		seen := map[string]bool{}
		add := func(s string) {
			if !seen[s] {
				seen[s] = true
				inputs = append(inputs, s)
			}
		}
		// none, all, every optional metric alone with every value (three base backgrounds), explicit not-defined spellings, shuffled v3
		add(v.Canonical(v.ZeroAssign()))
		add(v.Canonical(gen.Background(r, v, 1)))
		for m, me := range v.Metrics {
			if me.Mandatory {
				continue
			}
			for vi := 1; vi < len(me.Values); vi++ {
				for bg := 0; bg < 2; bg++ {
					a := v.ZeroAssign()
					if bg == 1 {
						for k, mk := range v.Metrics {
							if mk.Mandatory {
								a[k] = uint8(len(mk.Values) - 1)
							}
						}
					}
					a[m] = uint8(vi)
					add(v.Canonical(a))
					ex := make([]bool, v.N())
					for k := range ex {
						ex[k] = true
					}
					add(v.Spell(a, ex, nil)) // every optional metric written, X/ND explicit
				}
			}
			// all but this one
			a := gen.Background(r, v, 1)
			a[m] = 0
			add(v.Canonical(a))
		}
		// every assignment with at most 2 optional metrics defined (first and last defined value of each)
		for _, set := range gen.SparseSubsets(v, 2) {
			base := gen.KSparseAssign(r, v, 0)
			for mask := 0; mask < 1<<len(set); mask++ {
				a := base.Clone()
				for j, m := range set {
					if mask>>j&1 == 0 {
						a[m] = 1
					} else {
						a[m] = uint8(len(v.Metrics[m].Values) - 1)
					}
				}
				add(v.Canonical(a))
			}
		}
		for len(inputs) < c.Pick(2000, 100_000) {
			a := gen.MixedAssign(r, v)
			s, _ := gen.RandomSpelling(r, v, a)
			add(s)
		}
		// Get/Set arguments: every metric x every legal value + 3 illegal values
		var gets []string
		var sets [][2]string
		for _, me := range v.Metrics {
			gets = append(gets, me.Abv)
			for _, val := range me.Values {
				sets = append(sets, [2]string{me.Abv, val})
			}
			for _, bad := range []string{"", strings.ToLower(me.Values[0]) + "q", "NOT-A-VALUE-LONG-ENOUGH-TO-MATTER"} {
				sets = append(sets, [2]string{me.Abv, bad})
			}
		}
		for i, s := range inputs {
			var g []string
			var st [][2]string
			if i < 3 { // the full Get/Set matrix on the first three objects (none / all / one)
				g, st = gets, sets
			} else { // afterwards a rotating slice of it
				g = []string{gets[i%len(gets)]}
				st = [][2]string{sets[i%len(sets)], sets[(i*7+3)%len(sets)]}
			}
			ops, err := probe.AllocOps(vi, s, g, st)
			if err != nil {
				c.Violate(Violation{Kind: "cannot-build-object", Version: v.Name, Steps: parseSteps(s), Expected: "accepted", Observed: err.Error()})
				continue
			}
			for _, op := range ops {
				measure(v.Name, op)
			}
			c.Distinct.Add(HashString(v.Name + s))
			if i%97 == 0 && len(c.Samples) < 24 {
				c.Samples = append(c.Samples, map[string]any{"version": v.Name, "input": s, "ops_measured": len(ops)})
			}
		}
		c.Extra["inputs_v"+v.Name] = len(inputs)
	}
	// history-dependent allocations: the budget must also hold for a call that directly follows
	// a DIFFERENT call -- a rejected vector of every error kind, a vector of another length, an
	// erroring Get/Set -- e.g. an error path that forgets to return a pooled buffer makes the NEXT
	// successful ParseVector allocate it again.
	calib := probe.MeasureAllocsAfter(func() {}, func() {}, 5, 40)
	c.Extra["history_measurement_calibration_allocs(no-op)"] = calib
	if calib > 0.02 {
		c.Inconclusive = append(c.Inconclusive, fmt.Sprintf("MemStats bracketing itself shows %.2f allocations per call", calib))
	}
	for vi, v := range spec.Versions {
		alpha := c14Alphabet(c.Rand("history-pre", v.Name), v)
		// plus one single-defect vector per (defect kind, position) of C18's injector on a full and a minimal vector
		{
			seenKP := map[string]bool{}
			ri := c.Rand("history-inject", v.Name)
			for _, src := range []string{v.Canonical(gen.Background(ri, v, 1)), v.Canonical(v.ZeroAssign()), v.Canonical(gen.KSparseAssign(ri, v, 5))} {
				inject(ri, v, src, func(d defect) {
					k := fmt.Sprint(d.kind, d.pos, len(src))
					if !seenKP[k] {
						seenKP[k] = true
						alpha = append(alpha, d.s)
					}
				})
			}
		}
		r := c.Rand("history-f", v.Name)
		var targets []string
		targets = append(targets, v.Canonical(v.ZeroAssign()), v.Canonical(gen.Background(r, v, 1)))
		for k := 0; k < c.Pick(2, 16); k++ {
			sp, _ := gen.RandomSpelling(r, v, gen.MixedAssign(r, v))
			targets = append(targets, sp)
		}
		pairs := 0
		for _, tgt := range targets {
			ops, err := probe.AllocOps(vi, tgt, []string{v.Metrics[0].Abv}, [][2]string{{v.Metrics[0].Abv, v.Metrics[0].Values[0]}, {v.Metrics[0].Abv, "not-a-value"}})
			if err != nil {
				continue
			}
			for _, preS := range alpha {
				pre := probe.ParseOnly(vi, preS)
				for _, op := range ops {
					if op.Name != "ParseVector" && op.Name != "Vector" && pairs%5 != 0 {
						continue // scores / Get / Set after every 5th predecessor only
					}
					best := -1.0
					ok := false
					for try := 0; try < 4 && !ok; try++ {
						m := probe.MeasureAllocsAfter(pre, op.F, 3, 24)
						if best < 0 || m < best {
							best = m
						}
						if op.Exact {
							ok = best >= float64(op.Budget)-0.05 && best <= float64(op.Budget)+0.05
							if best < float64(op.Budget)-0.05 {
								break
							}
						} else {
							ok = best <= float64(op.Budget)+0.05
						}
					}
					c.Evals += 27
					c.Counts["measured-after-another-call:"+op.Name]++
					if !ok {
						c.Violate(Violation{Kind: "allocation-budget-exceeded-after-another-call", Version: v.Name, Steps: []Step{{Op: "parse", S: preS}, {Op: "parse", S: tgt}},
							Expected: fmt.Sprintf("%s(%s): budget %d heap allocation(s) also when it directly follows ParseVector(%q)", op.Name, op.Arg, op.Budget, preS),
							Observed: fmt.Sprintf("%.2f per call (minimum of the means of up to 4 runs of 24 bracketed calls)", best), Detail: map[string]any{"op": op.Name}})
					}
				}
				pairs++
			}
		}
		c.Extra["history_pairs_v"+v.Name] = pairs
	}
	for _, x := range []float64{0, 0.05, 0.1, 3.9, 4.0, 5.4, 7.0, 8.9, 9.0, 10.0, -0.1, 10.1, 1e300, -1e300} {
		for _, op := range probe.RatingOps(x) {
			op.Arg = fstr(x)
			measure("", op)
		}
	}
	c.Extra["sinks_alive"] = probe.KeepAlive() > 0
	c.Extra["remeasurements_needed"] = remeasured
	c.Extra["measured_means_histogram"] = hist
	c.Extra["toolchain"] = runtime.Version()
	c.Extra["calls_per_measurement"] = n
	c.SetReport(Report{
		Rule:        "steady-state heap allocations per call measured with runtime.MemStats.Mallocs around " + fmt.Sprint(n) + " calls after " + fmt.Sprint(warm) + " warm-up calls, GOMAXPROCS(1), GC off, concrete methods called directly, results kept alive in package-level sinks; minimum over up to 4 repetitions (stray runtime allocations only add). Budget: successful ParseVector <= 1, Vector() == 1, Get/Set on a known metric (legal and illegal values), every scoring method, Rating, Nomenclature == 0. Also measured with MemStats read between a PRECEDING call (each of ~40 valid/invalid vectors per version, every error kind) and the measured call, so that an allocation pushed onto the next call by an earlier one (pool buffer not returned on an error path) is seen. Inputs: no optional metric, all, every optional metric alone x every value (incl. all U spellings) x 2 base backgrounds, canonical and with every X/ND written explicitly, all-but-one, seeded random subsets/spellings (v3 shuffled). evaluations = measured calls; distinct = distinct input vectors",
		Assumptions: []string{"a property of the compiled program: decided for the toolchain in this image (" + runtime.Version() + "), plain build (no -race: the race runtime makes sync.Pool drop Puts)"},
	})
	c.Finish()
}
