package mon

import (
	"fmt"
	"runtime"
	"strings"

	"verifharness/gen"
	"verifharness/probe"
	"verifharness/spec"
)

// ---------------------------------------------------------------- C17

func CheckC17(c *Ctx) {
	prev := runtime.GOMAXPROCS(1)
	defer runtime.GOMAXPROCS(prev)
	const warm, n = 50, 200
	remeasured := 0
	hist := map[string]int64{}
	measure := func(ver string, op probe.AllocOp) {
		var best float64 = -1
		ok := false
		for try := 0; try < 4; try++ {
			m := probe.MeasureAllocs(op.F, warm, n)
			if best < 0 || m < best {
				best = m
			}
			// stray runtime allocations only ever ADD: the minimum over repetitions is the estimate
			if op.Exact {
				ok = best >= float64(op.Budget)-0.02 && best <= float64(op.Budget)+0.02
				if best < float64(op.Budget)-0.02 {
					break // fewer than the exact budget: a real deviation, repetitions cannot raise a minimum
				}
			} else {
				ok = best <= float64(op.Budget)+0.02
			}
			if ok {
				break
			}
			remeasured++
		}
		c.Evals += warm + n
		c.Counts["measured:"+op.Name]++
		hist[fmt.Sprintf("%s=%.2f", op.Name, best)]++
		if !ok {
			rel := "at most"
			if op.Exact {
				rel = "exactly"
			}
			steps := []Step{{Op: "parse", S: op.Arg}}
			if op.Name == "Get" || op.Name == "Set" {
				steps = []Step{{Op: "new"}}
			}
			c.Violate(Violation{Kind: "allocation-budget-exceeded", Version: ver, Steps: steps, Expected: fmt.Sprintf("%s(%s): %s %d heap allocation(s) per call", op.Name, op.Arg, rel, op.Budget),
				Observed: fmt.Sprintf("%.2f per call (minimum of the means of up to 4 runs of %d calls, GOMAXPROCS=1, GC off)", best, n), Detail: map[string]any{"op": op.Name}})
		}
	}
	for vi, v := range spec.Versions {
		r := c.Rand("inputs", v.Name)
		var inputs []string
		seen := map[string]bool{}
		add := func(s string) {
			if !seen[s] {
				seen[s] = true
				inputs = append(inputs, s)
			}
		}
		// none, all, every optional metric alone with every value (three base backgrounds), explicit not-defined spellings, shuffled v3
		add(v.Canonical(v.ZeroAssign()))
		add(v.Canonical(gen.Background(r, v, 1)))
		for m, me := range v.Metrics {
			if me.Mandatory {
				continue
			}
			for vi := 1; vi < len(me.Values); vi++ {
				for bg := 0; bg < 2; bg++ {
					a := v.ZeroAssign()
					if bg == 1 {
						for k, mk := range v.Metrics {
							if mk.Mandatory {
								a[k] = uint8(len(mk.Values) - 1)
							}
						}
					}
					a[m] = uint8(vi)
					add(v.Canonical(a))
					ex := make([]bool, v.N())
					for k := range ex {
						ex[k] = true
					}
					add(v.Spell(a, ex, nil)) // every optional metric written, X/ND explicit
				}
			}
			// all but this one
			a := gen.Background(r, v, 1)
			a[m] = 0
			add(v.Canonical(a))
		}
		// every assignment with at most 2 optional metrics defined (first and last defined value of each)
		for _, set := range gen.SparseSubsets(v, 2) {
			base := gen.KSparseAssign(r, v, 0)
			for mask := 0; mask < 1<<len(set); mask++ {
				a := base.Clone()
				for j, m := range set {
					if mask>>j&1 == 0 {
						a[m] = 1
					} else {
						a[m] = uint8(len(v.Metrics[m].Values) - 1)
					}
				}
				add(v.Canonical(a))
			}
		}
		for len(inputs) < c.Pick(2000, 100_000) {
			a := gen.MixedAssign(r, v)
			s, _ := gen.RandomSpelling(r, v, a)
			add(s)
		}
		// Get/Set arguments: every metric x every legal value + 3 illegal values
		var gets []string
		var sets [][2]string
		for _, me := range v.Metrics {
			gets = append(gets, me.Abv)
			for _, val := range me.Values {
				sets = append(sets, [2]string{me.Abv, val})
			}
			for _, bad := range []string{"", strings.ToLower(me.Values[0]) + "q", "NOT-A-VALUE-LONG-ENOUGH-TO-MATTER"} {
				sets = append(sets, [2]string{me.Abv, bad})
			}
		}
		for i, s := range inputs {
			var g []string
			var st [][2]string
			if i < 3 { // the full Get/Set matrix on the first three objects (none / all / one)
				g, st = gets, sets
			} else { // afterwards a rotating slice of it
				g = []string{gets[i%len(gets)]}
				st = [][2]string{sets[i%len(sets)], sets[(i*7+3)%len(sets)]}
			}
			ops, err := probe.AllocOps(vi, s, g, st)
			if err != nil {
				c.Violate(Violation{Kind: "cannot-build-object", Version: v.Name, Steps: parseSteps(s), Expected: "accepted", Observed: err.Error()})
				continue
			}
			for _, op := range ops {
				measure(v.Name, op)
			}
			c.Distinct.Add(HashString(v.Name + s))
			if i%97 == 0 && len(c.Samples) < 24 {
				c.Samples = append(c.Samples, map[string]any{"version": v.Name, "input": s, "ops_measured": len(ops)})
			}
		}
		c.Extra["inputs_v"+v.Name] = len(inputs)
	}
	// history-dependent allocations: the budget must also hold for a call that directly follows
	// a DIFFERENT call -- a rejected vector of every error kind, a vector of another length, an
	// erroring Get/Set -- e.g. an error path that forgets to return a pooled buffer makes the NEXT
	// successful ParseVector allocate it again.
	calib := probe.MeasureAllocsAfter(func() {}, func() {}, 5, 40)
	c.Extra["history_measurement_calibration_allocs(no-op)"] = calib
	if calib > 0.02 {
		c.Inconclusive = append(c.Inconclusive, fmt.Sprintf("MemStats bracketing itself shows %.2f allocations per call", calib))
	}
	for vi, v := range spec.Versions {
		alpha := c14Alphabet(c.Rand("history-pre", v.Name), v)
		// plus one single-defect vector per (defect kind, position) of C18's injector on a full and a minimal vector
		{
			seenKP := map[string]bool{}
			ri := c.Rand("history-inject", v.Name)
			for _, src := range []string{v.Canonical(gen.Background(ri, v, 1)), v.Canonical(v.ZeroAssign()), v.Canonical(gen.KSparseAssign(ri, v, 5))} {
				inject(ri, v, src, func(d defect) {
					k := fmt.Sprint(d.kind, d.pos, len(src))
					if !seenKP[k] {
						seenKP[k] = true
						alpha = append(alpha, d.s)
					}
				})
			}
		}
		r := c.Rand("history-f", v.Name)
		var targets []string
		targets = append(targets, v.Canonical(v.ZeroAssign()), v.Canonical(gen.Background(r, v, 1)))
		for k := 0; k < c.Pick(2, 16); k++ {
			sp, _ := gen.RandomSpelling(r, v, gen.MixedAssign(r, v))
			targets = append(targets, sp)
		}
		pairs := 0
		for _, tgt := range targets {
			ops, err := probe.AllocOps(vi, tgt, []string{v.Metrics[0].Abv}, [][2]string{{v.Metrics[0].Abv, v.Metrics[0].Values[0]}, {v.Metrics[0].Abv, "not-a-value"}})
			if err != nil {
				continue
			}
			for _, preS := range alpha {
				pre := probe.ParseOnly(vi, preS)
				for _, op := range ops {
					if op.Name != "ParseVector" && op.Name != "Vector" && pairs%5 != 0 {
						continue // scores / Get / Set after every 5th predecessor only
					}
					best := -1.0
					ok := false
					for try := 0; try < 4 && !ok; try++ {
						m := probe.MeasureAllocsAfter(pre, op.F, 3, 24)
						if best < 0 || m < best {
							best = m
						}
						if op.Exact {
							ok = best >= float64(op.Budget)-0.05 && best <= float64(op.Budget)+0.05
							if best < float64(op.Budget)-0.05 {
								break
							}
						} else {
							ok = best <= float64(op.Budget)+0.05
						}
					}
					c.Evals += 27
					c.Counts["measured-after-another-call:"+op.Name]++
					if !ok {
						c.Violate(Violation{Kind: "allocation-budget-exceeded-after-another-call", Version: v.Name, Steps: []Step{{Op: "parse", S: preS}, {Op: "parse", S: tgt}},
							Expected: fmt.Sprintf("%s(%s): budget %d heap allocation(s) also when it directly follows ParseVector(%q)", op.Name, op.Arg, op.Budget, preS),
							Observed: fmt.Sprintf("%.2f per call (minimum of the means of up to 4 runs of 24 bracketed calls)", best), Detail: map[string]any{"op": op.Name}})
					}
				}
				pairs++
			}
		}
		c.Extra["history_pairs_v"+v.Name] = pairs
	}
	// EXHAUSTIVE WALK: Vector() must perform exactly one allocation for EVERY configuration of the optional
	// metrics. All configurations of one version are visited in reflected mixed-radix Gray order (one Set per
	// step on a concrete object); allocations are counted per block of 32,768 Vector() calls -- the delta of
	// MemStats.Mallocs must equal the number of calls. A block that shows more is re-walked (minimum of 3),
	// and if the excess persists every call of the block is bracketed individually to name the configuration.
	c17Walk(c)
	for _, x := range []float64{0, 0.05, 0.1, 3.9, 4.0, 5.4, 7.0, 8.9, 9.0, 10.0, -0.1, 10.1, 1e300, -1e300} {
		for _, op := range probe.RatingOps(x) {
			op.Arg = fstr(x)
			measure("", op)
		}
	}
	c.Extra["sinks_alive"] = probe.KeepAlive() > 0
	c.Extra["remeasurements_needed"] = remeasured
	c.Extra["measured_means_histogram"] = hist
	c.Extra["toolchain"] = runtime.Version()
	c.Extra["calls_per_measurement"] = n
	c.SetReport(Report{
		Rule:        "steady-state heap allocations per call measured with runtime.MemStats.Mallocs around " + fmt.Sprint(n) + " calls after " + fmt.Sprint(warm) + " warm-up calls, GOMAXPROCS(1), GC off, concrete methods called directly, results kept alive in package-level sinks; minimum over up to 4 repetitions (stray runtime allocations only add). Budget: successful ParseVector <= 1, Vector() == 1, Get/Set on a known metric (legal and illegal values), every scoring method, Rating, Nomenclature == 0. Also measured with MemStats read between a PRECEDING call (each of ~40 valid/invalid vectors per version, every error kind) and the measured call, so that an allocation pushed onto the next call by an earlier one (pool buffer not returned on an error path) is seen. EXHAUSTIVE WALK for Vector(): every configuration of the optional metrics of v2.0 (192,000), and in thorough of v3.0/v3.1 (221,184,000 each) and of v4.0's threat+environmental metrics (1,179,648,000; supplemental seeded per chunk) -- quick: 1 chunk in 25 / 64 -- visited in Gray-code order on a concrete object, allocations counted per block of 32,768 calls (must equal the number of calls; excess re-walked, then bracketed per call). Inputs: no optional metric, all, every optional metric alone x every value (incl. all U spellings) x 2 base backgrounds, canonical and with every X/ND written explicitly, all-but-one, seeded random subsets/spellings (v3 shuffled). evaluations = measured calls; distinct = distinct input vectors",
		Assumptions: []string{"a property of the compiled program: decided for the toolchain in this image (" + runtime.Version() + "), plain build (no -race: the race runtime makes sync.Pool drop Puts)"},
	})
	c.Finish()
}

type grayState struct {
	dig, foc, dir []int
}

func (g *grayState) clone() *grayState {
	return &grayState{append([]int{}, g.dig...), append([]int{}, g.foc...), append([]int{}, g.dir...)}
}

// next advances the reflected mixed-radix Gray code; returns the digit that moved, or -1 at the end.
func (g *grayState) next(radix []int) int {
	j := g.foc[0]
	g.foc[0] = 0
	if j == len(g.dig) {
		return -1
	}
	g.dig[j] += g.dir[j]
	if g.dig[j] == 0 || g.dig[j] == radix[j]-1 {
		g.dir[j] = -g.dir[j]
		g.foc[j] = g.foc[j+1]
		g.foc[j+1] = j + 1
	}
	return j
}

func c17Walk(c *Ctx) {
	const block = 32768
	for vi, v := range spec.Versions {
		var opt []int
		for m, me := range v.Metrics {
			if !me.Mandatory {
				opt = append(opt, m)
			}
		}
		// chunk prefix = the first pre optional metrics (fixed per chunk), the rest is Gray-walked
		pre := 0
		full := true
		switch v.ID {
		case spec.V30, spec.V31:
			pre = 2 // E, RL : 25 chunks
		case spec.V40:
			pre = 4 // E CR IR AR : 256 chunks; supplemental metrics seeded per chunk, not enumerated
		}
		walkMetrics := opt[pre:]
		if v.ID == spec.V40 {
			walkMetrics = nil
			for _, m := range opt[pre:] {
				if v.Metrics[m].Group != spec.GSupp {
					walkMetrics = append(walkMetrics, m)
				}
			}
		}
		nChunks := 1
		for _, m := range opt[:pre] {
			nChunks *= len(v.Metrics[m].Values)
		}
		stride := 1
		if c.Quick {
			switch v.ID {
			case spec.V30, spec.V31:
				stride = 25
			case spec.V40:
				stride = 64
			}
			full = stride == 1
		}
		radix := make([]int, len(walkMetrics))
		for j, m := range walkMetrics {
			radix[j] = len(v.Metrics[m].Values)
		}
		r := c.Rand("walk", v.Name)
		off := r.Intn(stride)
		var calls, excessBlocks, noisyBlocks int64
		for ci := off; ci < nChunks; ci += stride {
			a := gen.KSparseAssign(r, v, 0)
			k := ci
			for _, m := range opt[:pre] {
				n := len(v.Metrics[m].Values)
				a[m] = uint8(k % n)
				k /= n
			}
			if v.ID == spec.V40 {
				for mI, me := range v.Metrics {
					if me.Group == spec.GSupp {
						a[mI] = uint8(r.Intn(len(me.Values)))
					}
				}
			}
			wk, err := probe.NewWalker(vi, v.Canonical(a))
			if err != nil {
				c.Violate(Violation{Kind: "cannot-build-object", Version: v.Name, Steps: parseSteps(v.Canonical(a)), Expected: "accepted", Observed: err.Error()})
				break
			}
			g := &grayState{make([]int, len(radix)), make([]int, len(radix)+1), make([]int, len(radix))}
			for j := range g.foc {
				g.foc[j] = j
			}
			for j := range g.dir {
				g.dir[j] = 1
			}
			done := false
			for !done {
				// one block, measured; state saved for re-walks
				g0, w0 := g.clone(), wk.Copy()
				walkBlock := func(g *grayState, wk *probe.Walker, each func(i int)) (n int, end bool) {
					for n < block {
						if each != nil {
							each(n)
						} else {
							wk.Vector()
						}
						n++
						j := g.next(radix)
						if j < 0 {
							return n, true
						}
						m := walkMetrics[j]
						wk.Set(v.Metrics[m].Abv, v.Metrics[m].Values[g.dig[j]])
					}
					return n, false
				}
				before := probe.Mallocs()
				n, end := walkBlock(g, wk, nil)
				delta := int64(probe.Mallocs()-before) - int64(n)
				done = end
				calls += int64(n)
				if delta != 0 {
					noisyBlocks++
					// re-walk from the saved state: stray runtime allocations only add, a real one repeats
					best := delta
					for try := 0; try < 3 && best != 0; try++ {
						gg, ww := g0.clone(), w0.Copy()
						b := probe.Mallocs()
						nn, _ := walkBlock(gg, ww, nil)
						if d := int64(probe.Mallocs()-b) - int64(nn); (d >= 0 && d < best) || (best < 0 && d > best) {
							best = d
						}
					}
					if best != 0 {
						excessBlocks++
						// name the configuration(s): bracket every call of the block
						gg, ww := g0.clone(), w0.Copy()
						found := 0
						walkBlock(gg, ww, func(i int) {
							if found >= 3 {
								ww.Vector()
								return
							}
							m0 := 99.0
							for t := 0; t < 3 && m0 != 1; t++ {
								b := probe.Mallocs()
								ww.Vector()
								if d := float64(probe.Mallocs() - b); d < m0 {
									m0 = d
								}
							}
							if m0 != 1 {
								found++
								bcfg := a.Clone()
								for j, m := range walkMetrics {
									bcfg[m] = uint8(gg.dig[j])
								}
								c.Violate(Violation{Kind: "allocation-budget-exceeded", Version: v.Name, Steps: append(parseSteps(v.Canonical(bcfg)), Step{Op: "vector"}),
									Expected: "Vector(): exactly 1 heap allocation for " + v.Canonical(bcfg), Observed: fmt.Sprintf("%.0f (exhaustive walk, block excess %d over %d calls)", m0, best, n), Detail: map[string]any{"op": "Vector", "workload": "exhaustive-walk"}})
							}
						})
						if found == 0 {
							c.Violate(Violation{Kind: "allocation-budget-exceeded", Version: v.Name, Steps: parseSteps(v.Canonical(a)), Expected: fmt.Sprintf("%d Vector() calls = %d allocations", n, n), Observed: fmt.Sprintf("excess %d (minimum of 4 walks of the block), configuration not isolated", best), Detail: map[string]any{"op": "Vector", "workload": "exhaustive-walk"}})
						}
					}
				}
				if c.nviolA.Load() > 20 {
					done = true
				}
			}
			if c.nviolA.Load() > 20 {
				break
			}
		}
		c.Evals += calls
		c.Acc[62] += calls
		c.Extra["exhaustive_walk_vector_calls_v"+v.Name] = calls
		c.Extra["exhaustive_walk_complete_v"+v.Name] = full
		c.Extra["exhaustive_walk_blocks_with_confirmed_excess_v"+v.Name] = excessBlocks
		c.Extra["exhaustive_walk_blocks_rewalked_v"+v.Name] = noisyBlocks
	}
}
