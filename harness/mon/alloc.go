package mon

import (
	"fmt"
	"runtime"
	"strings"
	"sync"

	"verifharness/gen"
	"verifharness/probe"
	"verifharness/spec"
)

// ---------------------------------------------------------------- C17

func CheckC17(c *Ctx) {
	prev := runtime.GOMAXPROCS(1)
	defer runtime.GOMAXPROCS(prev)
	const warm, n = 50, 200
	remeasured := 0
	hist := map[string]int64{}
	measure := func(ver string, op probe.AllocOp) {
		var best float64 = -1
		ok := false
		for try := 0; try < 4; try++ {
			m := probe.MeasureAllocs(op.F, warm, n)
			if best < 0 || m < best {
				best = m
			}
			// stray runtime allocations only ever ADD: the minimum over repetitions is the estimate
			if op.Exact {
				ok = best >= float64(op.Budget)-0.02 && best <= float64(op.Budget)+0.02
				if best < float64(op.Budget)-0.02 {
					break // fewer than the exact budget: a real deviation, repetitions cannot raise a minimum
				}
			} else {
				ok = best <= float64(op.Budget)+0.02
			}
			if ok {
				break
			}
			remeasured++
		}
		c.Evals += warm + n
		c.Counts["measured:"+op.Name]++
		hist[fmt.Sprintf("%s=%.2f", op.Name, best)]++
		if !ok {
			rel := "at most"
			if op.Exact {
				rel = "exactly"
			}
			steps := []Step{{Op: "parse", S: op.Arg}}
			if op.Name == "Get" || op.Name == "Set" {
				steps = []Step{{Op: "new"}}
			}
			c.Violate(Violation{Kind: "allocation-budget-exceeded", Version: ver, Steps: steps, Expected: fmt.Sprintf("%s(%s): %s %d heap allocation(s) per call", op.Name, op.Arg, rel, op.Budget),
				Observed: fmt.Sprintf("%.2f per call (minimum of the means of up to 4 runs of %d calls, GOMAXPROCS=1, GC off)", best, n), Detail: map[string]any{"op": op.Name}})
		}
	}
	for vi, v := range spec.Versions {
		r := c.Rand("inputs", v.Name)
		var inputs []string
		seen := map[string]bool{}
		add := func(s string) {
			if !seen[s] {
				seen[s] = true
				inputs = append(inputs, s)
			}
		}
		// none, all, every optional metric alone with every value (three base backgrounds), explicit not-defined spellings, shuffled v3
		add(v.Canonical(v.ZeroAssign()))
		add(v.Canonical(gen.Background(r, v, 1)))
		for m, me := range v.Metrics {
			if me.Mandatory {
				continue
			}
			for vi := 1; vi < len(me.Values); vi++ {
				for bg := 0; bg < 2; bg++ {
					a := v.ZeroAssign()
					if bg == 1 {
						for k, mk := range v.Metrics {
							if mk.Mandatory {
								a[k] = uint8(len(mk.Values) - 1)
							}
						}
					}
					a[m] = uint8(vi)
					add(v.Canonical(a))
					ex := make([]bool, v.N())
					for k := range ex {
						ex[k] = true
					}
					add(v.Spell(a, ex, nil)) // every optional metric written, X/ND explicit
				}
			}
			// all but this one
			a := gen.Background(r, v, 1)
			a[m] = 0
			add(v.Canonical(a))
		}
		// every assignment with at most 2 optional metrics defined (first and last defined value of each)
		for _, set := range gen.SparseSubsets(v, 2) {
			base := gen.KSparseAssign(r, v, 0)
			for mask := 0; mask < 1<<len(set); mask++ {
				a := base.Clone()
				for j, m := range set {
					if mask>>j&1 == 0 {
						a[m] = 1
					} else {
						a[m] = uint8(len(v.Metrics[m].Values) - 1)
					}
				}
				add(v.Canonical(a))
			}
		}
		for len(inputs) < c.Pick(2000, 100_000) {
			a := gen.MixedAssign(r, v)
			s, _ := gen.RandomSpelling(r, v, a)
			add(s)
		}
		// Get/Set arguments: every metric x every legal value + 3 illegal values
		var gets []string
		var sets [][2]string
		for _, me := range v.Metrics {
			gets = append(gets, me.Abv)
			for _, val := range me.Values {
				sets = append(sets, [2]string{me.Abv, val})
			}
			for _, bad := range []string{"", strings.ToLower(me.Values[0]) + "q", "NOT-A-VALUE-LONG-ENOUGH-TO-MATTER"} {
				sets = append(sets, [2]string{me.Abv, bad})
			}
		}
		// COMPLETE hostile matrix for Set on a known metric: every metric x every hostile value string (case variants,
		// look-alikes, encoding twins, padded and over-long values, length wraps) -- an illegal value must cost nothing
		var hostileSets [][2]string
		for _, me := range v.Metrics {
			for _, bad := range hostileValues() {
				if len(bad) > 4096 {
					continue // the 64 KB length-wrap strings are measured for the first metric only (below)
				}
				hostileSets = append(hostileSets, [2]string{me.Abv, bad})
			}
		}
		for _, bad := range hostileValues() {
			if len(bad) > 4096 {
				hostileSets = append(hostileSets, [2]string{v.Metrics[0].Abv, bad})
			}
		}
		c.Extra["hostile_set_arguments_v"+v.Name] = len(hostileSets)
		for i, s := range inputs {
			var g []string
			var st [][2]string
			if i == 0 {
				g, st = gets, append(append([][2]string{}, sets...), hostileSets...)
			} else if i < 3 { // the full Get/Set matrix on the first three objects (none / all / one)
				g, st = gets, sets
			} else { // afterwards a rotating slice of it
				g = []string{gets[i%len(gets)]}
				st = [][2]string{sets[i%len(sets)], sets[(i*7+3)%len(sets)]}
			}
			ops, err := probe.AllocOps(vi, s, g, st)
			if err != nil {
				c.Violate(Violation{Kind: "cannot-build-object", Version: v.Name, Steps: parseSteps(s), Expected: "accepted", Observed: err.Error()})
				continue
			}
			for _, op := range ops {
				measure(v.Name, op)
			}
			c.Distinct.Add(HashString(v.Name + s))
			if i%97 == 0 && len(c.Samples) < 24 {
				c.Samples = append(c.Samples, map[string]any{"version": v.Name, "input": s, "ops_measured": len(ops)})
			}
		}
		c.Extra["inputs_v"+v.Name] = len(inputs)
	}
	// history-dependent allocations: the budget must also hold for a call that directly follows
	// a DIFFERENT call -- a rejected vector of every error kind, a vector of another length, an
	// erroring Get/Set -- e.g. an error path that forgets to return a pooled buffer makes the NEXT
	// successful ParseVector allocate it again.
	calib := probe.MeasureAllocsAfter(func() {}, func() {}, 5, 40)
	c.Extra["history_measurement_calibration_allocs(no-op)"] = calib
	if calib > 0.02 {
		c.Inconclusive = append(c.Inconclusive, fmt.Sprintf("MemStats bracketing itself shows %.2f allocations per call", calib))
	}
	for vi, v := range spec.Versions {
		alpha := c14Alphabet(c.Rand("history-pre", v.Name), v)
		// plus one single-defect vector per (defect kind, position) of C18's injector on a full and a minimal vector
		{
			seenKP := map[string]bool{}
			ri := c.Rand("history-inject", v.Name)
			for _, src := range []string{v.Canonical(gen.Background(ri, v, 1)), v.Canonical(v.ZeroAssign()), v.Canonical(gen.KSparseAssign(ri, v, 5))} {
				inject(ri, v, src, func(d defect) {
					k := fmt.Sprint(d.kind, d.pos, len(src))
					if !seenKP[k] {
						seenKP[k] = true
						alpha = append(alpha, d.s)
					}
				})
			}
		}
		r := c.Rand("history-f", v.Name)
		var targets []string
		targets = append(targets, v.Canonical(v.ZeroAssign()), v.Canonical(gen.Background(r, v, 1)))
		for k := 0; k < c.Pick(2, 16); k++ {
			sp, _ := gen.RandomSpelling(r, v, gen.MixedAssign(r, v))
			targets = append(targets, sp)
		}
		pairs := 0
		for _, tgt := range targets {
			ops, err := probe.AllocOps(vi, tgt, []string{v.Metrics[0].Abv}, [][2]string{{v.Metrics[0].Abv, v.Metrics[0].Values[0]}, {v.Metrics[0].Abv, "not-a-value"}})
			if err != nil {
				continue
			}
			for _, preS := range alpha {
				pre := probe.ParseOnly(vi, preS)
				for _, op := range ops {
					if op.Name != "ParseVector" && op.Name != "Vector" && pairs%5 != 0 {
						continue // scores / Get / Set after every 5th predecessor only
					}
					best := -1.0
					ok := false
					for try := 0; try < 4 && !ok; try++ {
						m := probe.MeasureAllocsAfter(pre, op.F, 3, 24)
						if best < 0 || m < best {
							best = m
						}
						if op.Exact {
							ok = best >= float64(op.Budget)-0.05 && best <= float64(op.Budget)+0.05
							if best < float64(op.Budget)-0.05 {
								break
							}
						} else {
							ok = best <= float64(op.Budget)+0.05
						}
					}
					c.Evals += 27
					c.Counts["measured-after-another-call:"+op.Name]++
					if !ok {
						c.Violate(Violation{Kind: "allocation-budget-exceeded-after-another-call", Version: v.Name, Steps: []Step{{Op: "parse", S: preS}, {Op: "parse", S: tgt}},
							Expected: fmt.Sprintf("%s(%s): budget %d heap allocation(s) also when it directly follows ParseVector(%q)", op.Name, op.Arg, op.Budget, preS),
							Observed: fmt.Sprintf("%.2f per call (minimum of the means of up to 4 runs of 24 bracketed calls)", best), Detail: map[string]any{"op": op.Name}})
					}
				}
				pairs++
			}
		}
		c.Extra["history_pairs_v"+v.Name] = pairs
	}
	// EXHAUSTIVE WALK: Vector() must perform exactly one allocation for EVERY configuration of the optional
	// metrics. All configurations of one version are visited in reflected mixed-radix Gray order (one Set per
	// step on a concrete object); allocations are counted per block of 32,768 Vector() calls -- the delta of
	// MemStats.Mallocs must equal the number of calls. A block that shows more is re-walked (minimum of 3),
	// and if the excess persists every call of the block is bracketed individually to name the configuration.
	c17Walk(c)
	c17ScoreWalk(c)
	c17Concurrent(c)
	for _, x := range []float64{0, 0.05, 0.1, 3.9, 4.0, 5.4, 7.0, 8.9, 9.0, 10.0, -0.1, 10.1, 1e300, -1e300} {
		for _, op := range probe.RatingOps(x) {
			op.Arg = fstr(x)
			measure("", op)
		}
	}
	c.Extra["sinks_alive"] = probe.KeepAlive() > 0
	c.Extra["remeasurements_needed"] = remeasured
	c.Extra["measured_means_histogram"] = hist
	c.Extra["toolchain"] = runtime.Version()
	c.Extra["calls_per_measurement"] = n
	c.SetReport(Report{
		Rule:        "steady-state heap allocations per call measured with runtime.MemStats.Mallocs around " + fmt.Sprint(n) + " calls after " + fmt.Sprint(warm) + " warm-up calls, GOMAXPROCS(1), GC off, concrete methods called directly, results kept alive in package-level sinks; minimum over up to 4 repetitions (stray runtime allocations only add). Budget: successful ParseVector <= 1, Vector() == 1, Get/Set on a known metric (legal and illegal values; Set also with EVERY hostile value string -- case variants, look-alikes, encoding twins, padded, over-long and length-wrapping values -- on every metric), every scoring method, Rating, Nomenclature == 0. Also measured with MemStats read between a PRECEDING call (each of ~40 valid/invalid vectors per version, every error kind) and the measured call, so that an allocation pushed onto the next call by an earlier one (pool buffer not returned on an error path) is seen. EXHAUSTIVE WALK for Vector(): every configuration of the optional metrics of v2.0 (192,000), and in thorough of v3.0/v3.1 (221,184,000 each) and of v4.0's threat+environmental metrics (1,179,648,000; supplemental seeded per chunk) -- quick: 1 chunk in 25 / 64 -- visited in Gray-code order on a concrete object, each serialisation is followed by ParseVector of the string just produced; allocations counted per block of 32,768 steps (must equal two per step: the string and the returned object; excess re-walked, then bracketed per call: Vector() exactly 1, ParseVector at most 1). CONCURRENT steady state: 16 goroutines on 16 Ps making 20,000 (thorough 200,000) overlapping calls each of ParseVector / Vector / all scoring methods per version on private objects; process-wide allocations per call within 0.02 of the budget. EXHAUSTIVE SCORE WALK for the methods that must not allocate: one object per chunk driven by single legal Set calls through v2.0's 139,968,000 assignments (quick: 3 of 27 chunks), v3.x's 16,588,800 effective classes through base metrics (quick: 2 of 8 chunks) plus all defined Modified assignments over a decoy base x 216 temporal/requirement settings, v4.0's base x defined E/CR/IR/AR x MSI/MSA in {X,S} (34,012,224; quick 1 chunk in 4) and all 15,116,544 classes through Modified metrics over a decoy base (quick 1 in 4): after every step every scoring method (v4: Score, Nomenclature) is called, allocations per block of 32,768 steps must be 0 (excess re-walked, then bracketed per step and method). Inputs: no optional metric, all, every optional metric alone x every value (incl. all U spellings) x 2 base backgrounds, canonical and with every X/ND written explicitly, all-but-one, seeded random subsets/spellings (v3 shuffled). evaluations = measured calls; distinct = distinct input vectors",
		Assumptions: []string{"a property of the compiled program: decided for the toolchain in this image (" + runtime.Version() + "), plain build (no -race: the race runtime makes sync.Pool drop Puts)"},
	})
	c.Finish()
}

type grayState struct {
	dig, foc, dir []int
}

func (g *grayState) clone() *grayState {
	return &grayState{append([]int{}, g.dig...), append([]int{}, g.foc...), append([]int{}, g.dir...)}
}

// next advances the reflected mixed-radix Gray code; returns the digit that moved, or -1 at the end.
func (g *grayState) next(radix []int) int {
	j := g.foc[0]
	g.foc[0] = 0
	if j == len(g.dig) {
		return -1
	}
	g.dig[j] += g.dir[j]
	if g.dig[j] == 0 || g.dig[j] == radix[j]-1 {
		g.dir[j] = -g.dir[j]
		g.foc[j] = g.foc[j+1]
		g.foc[j+1] = j + 1
	}
	return j
}

// c17ScoreWalk is the exhaustive allocation walk for the methods that must not allocate at all: every scoring
// method (and v4 Nomenclature), and the legal Set call that moves the walk. One concrete object per chunk is driven
// through a whole grid of assignments in reflected Gray-code order (one Set per step); after every step all scoring
// methods are called; heap allocations are counted per block of 32,768 steps and must be ZERO. A block with an
// excess is re-walked (stray runtime allocations only add), then bracketed per step and per method to name the
// assignment. Grids: v2.0 every assignment of all 14 metrics (139,968,000; quick: 3 of the 27 AV/AC/Au chunks);
// v3.x every base x E x RL x RC x CR x IR x AR (16,588,800 = all effective classes through base metrics), plus every
// defined Modified assignment over a decoy base x 216 temporal/requirement settings; v4.0 every base x defined
// E, CR, IR, AR x MSI, MSA in {X, S} (34,012,224; quick 1 chunk in 4), plus every defined Modified assignment over a decoy
// base x the 81 E/CR/IR/AR settings (15,116,544 = all effective classes through Modified metrics; quick 1 in 4).
func c17ScoreWalk(c *Ctx) {
	const block = 32768
	type grid struct {
		name    string
		ver     int
		pre     []int   // chunk prefix metrics
		preVals [][]int // value indexes per prefix metric
		walk    []int   // Gray-walked metrics
		vals    [][]int // value indexes per walked metric
		stride  int
		decoy   bool // random base underneath (grids that walk Modified metrics)
	}
	idx := func(v *spec.Version, abvs ...string) []int {
		var out []int
		for _, a := range abvs {
			out = append(out, v.Index(a))
		}
		return out
	}
	all := func(v *spec.Version, ms []int) [][]int {
		var out [][]int
		for _, m := range ms {
			var l []int
			for i := range v.Metrics[m].Values {
				l = append(l, i)
			}
			out = append(out, l)
		}
		return out
	}
	defined := func(v *spec.Version, ms []int) [][]int {
		out := all(v, ms)
		for i := range out {
			out[i] = out[i][1:]
		}
		return out
	}
	var grids []grid
	{
		v := spec.Versions[spec.V20]
		pre := idx(v, "AV", "AC", "Au")
		var walk []int
		for m := 3; m < v.N(); m++ {
			walk = append(walk, m)
		}
		grids = append(grids, grid{"v2-all-assignments", spec.V20, pre, all(v, pre), walk, all(v, walk), c.Pick(9, 1), false})
	}
	for _, vid := range []int{spec.V30, spec.V31} {
		v := spec.Versions[vid]
		pre := idx(v, "AV", "AC")
		walk := idx(v, "PR", "UI", "S", "C", "I", "A", "E", "RL", "RC", "CR", "IR", "AR")
		grids = append(grids, grid{"v" + v.Name + "-classes-through-base", vid, pre, all(v, pre), walk, all(v, walk), c.Pick(4, 1), false})
		pre2 := idx(v, "MAV")
		walk2 := idx(v, "MAC", "MPR", "MUI", "MS", "MC", "MI", "MA", "E", "RL", "RC", "CR", "IR", "AR")
		vals2 := defined(v, walk2[:7])
		vals2 = append(vals2, []int{0, 1}, []int{0, 2}, []int{0, 1}, []int{0, 1, 3}, []int{0, 1, 3}, []int{0, 1, 3})
		grids = append(grids, grid{"v" + v.Name + "-modified-over-decoy-base", vid, pre2, defined(v, pre2), walk2, vals2, 1, true})
	}
	{
		v := spec.Versions[spec.V40]
		pre := idx(v, "AV", "AC", "AT")
		walk := idx(v, "PR", "UI", "VC", "VI", "VA", "SC", "SI", "SA", "E", "CR", "IR", "AR", "MSI", "MSA")
		vals := all(v, walk[:8])
		vals = append(vals, defined(v, walk[8:12])...)
		vals = append(vals, []int{0, 1}, []int{0, 1})
		grids = append(grids, grid{"v4-base-x-threat-requirements-safety", spec.V40, pre, all(v, pre), walk, vals, c.Pick(4, 1), false})
		pre2 := idx(v, "MAV", "MAC")
		walk2 := idx(v, "MAT", "MPR", "MUI", "MVC", "MVI", "MVA", "MSC", "MSI", "MSA", "E", "CR", "IR", "AR")
		grids = append(grids, grid{"v4-classes-through-modified", spec.V40, pre2, defined(v, pre2), walk2, defined(v, walk2), c.Pick(4, 1), true})
	}
	for _, g := range grids {
		v := spec.Versions[g.ver]
		r := c.Rand("score-walk", g.name)
		nChunks := 1
		for _, l := range g.preVals {
			nChunks *= len(l)
		}
		radix := make([]int, len(g.walk))
		for j := range g.walk {
			radix[j] = len(g.vals[j])
		}
		off := r.Intn(g.stride)
		var steps, excessBlocks, noisyBlocks int64
		for ci := off; ci < nChunks && c.nviolA.Load() <= 20; ci += g.stride {
			a := gen.KSparseAssign(r, v, 0)
			k := ci
			for j, m := range g.pre {
				a[m] = uint8(g.preVals[j][k%len(g.preVals[j])])
				k /= len(g.preVals[j])
			}
			for j, m := range g.walk {
				a[m] = uint8(g.vals[j][0])
			}
			if v.ID == spec.V40 {
				for mI, me := range v.Metrics {
					if me.Group == spec.GSupp {
						a[mI] = uint8(r.Intn(len(me.Values)))
					}
				}
			}
			wk, err := probe.NewWalker(g.ver, v.Canonical(a))
			if err != nil {
				c.Violate(Violation{Kind: "cannot-build-object", Version: v.Name, Steps: parseSteps(v.Canonical(a)), Expected: "accepted", Observed: err.Error()})
				break
			}
			gs := &grayState{make([]int, len(radix)), make([]int, len(radix)+1), make([]int, len(radix))}
			for j := range gs.foc {
				gs.foc[j] = j
			}
			for j := range gs.dir {
				gs.dir[j] = 1
			}
			walkBlock := func(gs *grayState, wk *probe.Walker, each func()) (n int, end bool) {
				for n < block {
					if each != nil {
						each()
					} else {
						wk.Scores()
					}
					n++
					j := gs.next(radix)
					if j < 0 {
						return n, true
					}
					m := g.walk[j]
					wk.Set(v.Metrics[m].Abv, v.Metrics[m].Values[g.vals[j][gs.dig[j]]])
				}
				return n, false
			}
			done := false
			for !done && c.nviolA.Load() <= 20 {
				g0, w0 := gs.clone(), wk.Copy()
				before := probe.Mallocs()
				n, end := walkBlock(gs, wk, nil)
				delta := int64(probe.Mallocs() - before)
				done = end
				steps += int64(n)
				if delta == 0 {
					continue
				}
				noisyBlocks++
				best := delta
				for try := 0; try < 3 && best != 0; try++ {
					gg, ww := g0.clone(), w0.Copy()
					b := probe.Mallocs()
					walkBlock(gg, ww, nil)
					if d := int64(probe.Mallocs() - b); d < best {
						best = d
					}
				}
				if best == 0 {
					continue
				}
				excessBlocks++
				gg, ww := g0.clone(), w0.Copy()
				found := 0
				cur := func() spec.Assign {
					b := a.Clone()
					for j, m := range g.walk {
						b[m] = uint8(g.vals[j][gg.dig[j]])
					}
					return b
				}
				walkBlock(gg, ww, func() {
					if found >= 3 {
						return
					}
					for op := 0; op < ww.NScoreOps(); op++ {
						m0 := int64(99)
						for t := 0; t < 3 && m0 != 0; t++ {
							b := probe.Mallocs()
							ww.ScoreOp(op)
							if d := int64(probe.Mallocs() - b); d < m0 {
								m0 = d
							}
						}
						if m0 != 0 {
							found++
							vec := v.Canonical(cur())
							c.Violate(Violation{Kind: "allocation-budget-exceeded", Version: v.Name, Steps: append(parseSteps(vec), Step{Op: "score"}),
								Expected: ww.ScoreOpName(op) + "(): 0 heap allocations for " + vec, Observed: fmt.Sprintf("%d (exhaustive score walk %s, block excess %d over %d steps)", m0, g.name, best, n), Detail: map[string]any{"op": ww.ScoreOpName(op), "workload": "exhaustive-score-walk"}})
						}
					}
				})
				if found == 0 {
					c.Violate(Violation{Kind: "allocation-budget-exceeded", Version: v.Name, Steps: parseSteps(v.Canonical(a)), Expected: fmt.Sprintf("%d steps (one legal Set + every scoring method each) = 0 allocations", n), Observed: fmt.Sprintf("excess %d (minimum of 4 walks of the block; not attributable to a scoring method: the Set calls of the walk)", best), Detail: map[string]any{"workload": "exhaustive-score-walk", "grid": g.name}})
				}
			}
		}
		c.Evals += steps * int64(5)
		c.Acc[62] += steps
		c.Extra["score_walk_steps_"+g.name] = steps
		c.Extra["score_walk_complete_"+g.name] = g.stride == 1
		c.Extra["score_walk_blocks_with_confirmed_excess_"+g.name] = excessBlocks
		c.Extra["score_walk_blocks_rewalked_"+g.name] = noisyBlocks
		c.Floor("score walk steps "+g.name, steps, 100000)
	}
}

// c17Concurrent: the same budgets with the calls OVERLAPPING in time. A scratch buffer kept in a one-slot cache
// instead of a per-P pool costs nothing extra for a single caller and an extra allocation whenever two calls overlap.
// G = 16 goroutines on 16 Ps, each with its own inputs-by-value and sink, warm up, meet at a barrier, then make N calls
// of ONE kind each; heap allocations of the whole process over the measured phase divided by G*N must stay within
// 0.02 of the budget (minimum over up to 3 repetitions: stray allocations only add).
func c17Concurrent(c *Ctx) {
	const G = 16
	N := c.Pick(20000, 200000)
	prev := runtime.GOMAXPROCS(G)
	defer runtime.GOMAXPROCS(prev)
	for vi, v := range spec.Versions {
		r := c.Rand("concurrent", v.Name)
		vecs := []string{v.Canonical(v.ZeroAssign()), v.Canonical(gen.Background(r, v, 1)), v.Canonical(gen.MixedAssign(r, v))}
		for _, kind := range []string{"ParseVector", "Vector", "scores"} {
			budget := map[string]float64{"ParseVector": 1, "Vector": 1, "scores": 0}[kind]
			best := -1.0
			for try := 0; try < 3; try++ {
				sinks := make([]probe.ConcSink, G)
				fs := make([]func(), G)
				for g := 0; g < G; g++ {
					p, ve, sc, err := probe.ConcOps(vi, vecs[g%len(vecs)], &sinks[g])
					if err != nil {
						c.Violate(Violation{Kind: "cannot-build-object", Version: v.Name, Steps: parseSteps(vecs[g%len(vecs)]), Expected: "accepted", Observed: err.Error()})
						return
					}
					fs[g] = map[string]func(){"ParseVector": p, "Vector": ve, "scores": sc}[kind]
				}
				var ready, done sync.WaitGroup
				start := make(chan struct{})
				ready.Add(G)
				done.Add(G)
				for g := 0; g < G; g++ {
					go func(f func()) {
						for i := 0; i < 2000; i++ {
							f()
						}
						ready.Done()
						<-start
						for i := 0; i < N; i++ {
							f()
						}
						done.Done()
					}(fs[g])
				}
				ready.Wait()
				before := probe.Mallocs()
				close(start)
				done.Wait()
				mean := float64(probe.Mallocs()-before) / float64(G*N)
				runtime.KeepAlive(sinks)
				if best < 0 || mean < best {
					best = mean
				}
				c.Evals += int64(G * N)
				if best <= budget+0.02 {
					break
				}
			}
			c.Counts["concurrent-phases"]++
			c.Extra[fmt.Sprintf("concurrent_allocs_per_call_v%s_%s", v.Name, kind)] = fmt.Sprintf("%.4f", best)
			if best > budget+0.02 || (kind == "Vector" && best < budget-0.02) {
				c.Violate(Violation{Kind: "allocation-budget-exceeded", Version: v.Name, Steps: parseSteps(vecs[0]), Expected: fmt.Sprintf("%s: %.0f heap allocation(s) per call also when %d goroutines call it at the same time", kind, budget, G),
					Observed: fmt.Sprintf("%.4f per call (process-wide Mallocs over %d x %d overlapping calls, minimum of up to 3 runs)", best, G, N), Detail: map[string]any{"workload": "concurrent-steady-state", "op": kind, "note": "needs overlapping calls: the replay measures the call alone"}})
			}
		}
	}
}

func c17Walk(c *Ctx) {
	const block = 32768
	for vi, v := range spec.Versions {
		var opt []int
		for m, me := range v.Metrics {
			if !me.Mandatory {
				opt = append(opt, m)
			}
		}
		// chunk prefix = the first pre optional metrics (fixed per chunk), the rest is Gray-walked
		pre := 0
		full := true
		switch v.ID {
		case spec.V30, spec.V31:
			pre = 2 // E, RL : 25 chunks
		case spec.V40:
			pre = 4 // E CR IR AR : 256 chunks; supplemental metrics seeded per chunk, not enumerated
		}
		walkMetrics := opt[pre:]
		if v.ID == spec.V40 {
			walkMetrics = nil
			for _, m := range opt[pre:] {
				if v.Metrics[m].Group != spec.GSupp {
					walkMetrics = append(walkMetrics, m)
				}
			}
		}
		nChunks := 1
		for _, m := range opt[:pre] {
			nChunks *= len(v.Metrics[m].Values)
		}
		stride := 1
		if c.Quick {
			switch v.ID {
			case spec.V30, spec.V31:
				stride = 25
			case spec.V40:
				stride = 64
			}
			full = stride == 1
		}
		radix := make([]int, len(walkMetrics))
		for j, m := range walkMetrics {
			radix[j] = len(v.Metrics[m].Values)
		}
		r := c.Rand("walk", v.Name)
		off := r.Intn(stride)
		var calls, excessBlocks, noisyBlocks int64
		for ci := off; ci < nChunks; ci += stride {
			a := gen.KSparseAssign(r, v, 0)
			k := ci
			for _, m := range opt[:pre] {
				n := len(v.Metrics[m].Values)
				a[m] = uint8(k % n)
				k /= n
			}
			if v.ID == spec.V40 {
				for mI, me := range v.Metrics {
					if me.Group == spec.GSupp {
						a[mI] = uint8(r.Intn(len(me.Values)))
					}
				}
			}
			wk, err := probe.NewWalker(vi, v.Canonical(a))
			if err != nil {
				c.Violate(Violation{Kind: "cannot-build-object", Version: v.Name, Steps: parseSteps(v.Canonical(a)), Expected: "accepted", Observed: err.Error()})
				break
			}
			g := &grayState{make([]int, len(radix)), make([]int, len(radix)+1), make([]int, len(radix))}
			for j := range g.foc {
				g.foc[j] = j
			}
			for j := range g.dir {
				g.dir[j] = 1
			}
			done := false
			for !done {
				// one block, measured; state saved for re-walks
				g0, w0 := g.clone(), wk.Copy()
				walkBlock := func(g *grayState, wk *probe.Walker, each func(i int)) (n int, end bool) {
					for n < block {
						if each != nil {
							each(n)
						} else {
							wk.Vector()
							wk.ParseLast()
						}
						n++
						j := g.next(radix)
						if j < 0 {
							return n, true
						}
						m := walkMetrics[j]
						wk.Set(v.Metrics[m].Abv, v.Metrics[m].Values[g.dig[j]])
					}
					return n, false
				}
				before := probe.Mallocs()
				n, end := walkBlock(g, wk, nil)
				delta := int64(probe.Mallocs()-before) - 2*int64(n)
				done = end
				calls += int64(n)
				if delta != 0 {
					noisyBlocks++
					// re-walk from the saved state: stray runtime allocations only add, a real one repeats
					best := delta
					for try := 0; try < 3 && best != 0; try++ {
						gg, ww := g0.clone(), w0.Copy()
						b := probe.Mallocs()
						nn, _ := walkBlock(gg, ww, nil)
						if d := int64(probe.Mallocs()-b) - 2*int64(nn); (d >= 0 && d < best) || (best < 0 && d > best) {
							best = d
						}
					}
					if best != 0 {
						excessBlocks++
						// name the configuration(s): bracket every call of the block
						gg, ww := g0.clone(), w0.Copy()
						found := 0
						walkBlock(gg, ww, func(i int) {
							if found >= 3 {
								ww.Vector()
								ww.ParseLast()
								return
							}
							m0 := 99.0
							for t := 0; t < 3 && m0 != 1; t++ {
								b := probe.Mallocs()
								ww.Vector()
								if d := float64(probe.Mallocs() - b); d < m0 {
									m0 = d
								}
							}
							mp := 99.0
							for t := 0; t < 3 && mp > 1; t++ {
								b := probe.Mallocs()
								ww.ParseLast()
								if d := float64(probe.Mallocs() - b); d < mp {
									mp = d
								}
							}
							if mp > 1 {
								found++
								bcfg := a.Clone()
								for j, m := range walkMetrics {
									bcfg[m] = uint8(gg.dig[j])
								}
								c.Violate(Violation{Kind: "allocation-budget-exceeded", Version: v.Name, Steps: parseSteps(v.Canonical(bcfg)),
									Expected: "ParseVector: at most 1 heap allocation for " + v.Canonical(bcfg), Observed: fmt.Sprintf("%.0f (exhaustive walk, block excess %d over %d steps)", mp, best, n), Detail: map[string]any{"op": "ParseVector", "workload": "exhaustive-walk"}})
							}
							if m0 != 1 {
								found++
								bcfg := a.Clone()
								for j, m := range walkMetrics {
									bcfg[m] = uint8(gg.dig[j])
								}
								c.Violate(Violation{Kind: "allocation-budget-exceeded", Version: v.Name, Steps: append(parseSteps(v.Canonical(bcfg)), Step{Op: "vector"}),
									Expected: "Vector(): exactly 1 heap allocation for " + v.Canonical(bcfg), Observed: fmt.Sprintf("%.0f (exhaustive walk, block excess %d over %d calls)", m0, best, n), Detail: map[string]any{"op": "Vector", "workload": "exhaustive-walk"}})
							}
						})
						if found == 0 {
							c.Violate(Violation{Kind: "allocation-budget-exceeded", Version: v.Name, Steps: parseSteps(v.Canonical(a)), Expected: fmt.Sprintf("%d Vector() + ParseVector calls = %d allocations", n, 2*n), Observed: fmt.Sprintf("excess %d (minimum of 4 walks of the block), configuration not isolated", best), Detail: map[string]any{"op": "Vector", "workload": "exhaustive-walk"}})
						}
					}
				}
				if c.nviolA.Load() > 20 {
					done = true
				}
			}
			if c.nviolA.Load() > 20 {
				break
			}
		}
		c.Evals += calls
		c.Acc[62] += calls
		c.Extra["exhaustive_walk_vector_calls_v"+v.Name] = calls
		c.Extra["exhaustive_walk_complete_v"+v.Name] = full
		c.Extra["exhaustive_walk_blocks_with_confirmed_excess_v"+v.Name] = excessBlocks
		c.Extra["exhaustive_walk_blocks_rewalked_v"+v.Name] = noisyBlocks
	}
}
