package mon

import (
	"hash/adler32"
	"hash/crc32"
	"runtime"
	"slices"
	"sync"

	"verifharness/gen"
	"verifharness/probe"
	"verifharness/spec"
)

// Hash-collision pairs: pairs of DISTINCT well-formed vectors of one version that have the same length and the same
// value under one of the hash functions a maintainer would reach for when memoising ParseVector (FNV-1a, FNV-1, CRC-32
// IEEE / Castagnoli, Adler-32, the 31x and 33x multiplicative string hashes, 64-bit FNV folded or truncated to 32
// bits), computed over the whole string or over the part after the header. A cache that keys on (hash, length) and
// never compares the key itself (seeded C06e) is invisible to random inputs (2^-32 per lookup) but answers the second
// vector of such a pair with the first one's object. The pairs are found by a birthday search over n fully defined
// vectors (n^2 / 2^33 expected pairs per hash function and target), not guessed.

type hashFn struct {
	name string
	f    func(b []byte) uint32
}

var castagnoli = crc32.MakeTable(crc32.Castagnoli)

var hashFns = []hashFn{
	{"fnv1a32", func(b []byte) uint32 {
		h := uint32(2166136261)
		for _, c := range b {
			h = (h ^ uint32(c)) * 16777619
		}
		return h
	}},
	{"fnv1-32", func(b []byte) uint32 {
		h := uint32(2166136261)
		for _, c := range b {
			h = (h * 16777619) ^ uint32(c)
		}
		return h
	}},
	{"crc32-ieee", func(b []byte) uint32 { return crc32.ChecksumIEEE(b) }},
	{"crc32-castagnoli", func(b []byte) uint32 { return crc32.Checksum(b, castagnoli) }},
	{"adler32", func(b []byte) uint32 { return adler32.Checksum(b) }},
	{"java31", func(b []byte) uint32 {
		h := uint32(0)
		for _, c := range b {
			h = h*31 + uint32(c)
		}
		return h
	}},
	{"djb2", func(b []byte) uint32 {
		h := uint32(5381)
		for _, c := range b {
			h = h*33 + uint32(c)
		}
		return h
	}},
	{"fnv1a64-low32", func(b []byte) uint32 {
		h := uint64(0xcbf29ce484222325)
		for _, c := range b {
			h = (h ^ uint64(c)) * 0x100000001b3
		}
		return uint32(h)
	}},
	{"fnv1a64-fold32", func(b []byte) uint32 {
		h := uint64(0xcbf29ce484222325)
		for _, c := range b {
			h = (h ^ uint64(c)) * 0x100000001b3
		}
		return uint32(h) ^ uint32(h>>32)
	}},
}

// CollisionPair is one pair with the hash function and target it collides under.
type CollisionPair struct {
	A, B string
	How  string
}

// fullAssign derives, from (seed, i) alone, an assignment in which every optional metric is defined; v4's U is
// restricted to its two five-letter values so that all vectors of a version with one-letter values have one length
// (v2's values differ in length: its vectors are bucketed by length instead).
func fullAssign(v *spec.Version, seed uint64, i int, a spec.Assign) {
	x := seed + uint64(i)*0x9e3779b97f4a7c15
	next := func() uint64 {
		x += 0x9e3779b97f4a7c15
		z := x
		z = (z ^ (z >> 30)) * 0xbf58476d1ce4e5b9
		z = (z ^ (z >> 27)) * 0x94d049bb133111eb
		return z ^ (z >> 31)
	}
	for m, me := range v.Metrics {
		n := len(me.Values)
		if me.Mandatory {
			a[m] = uint8(next() % uint64(n))
			continue
		}
		a[m] = uint8(1 + next()%uint64(n-1))
		if v.ID == spec.V40 && me.Abv == "U" {
			// Green / Amber
			for me.Values[a[m]] != "Green" && me.Values[a[m]] != "Amber" {
				a[m] = uint8(1 + next()%uint64(n-1))
			}
		}
	}
}

// FindCollisionPairs searches n fully defined canonical vectors of v for equal-length pairs that collide under one of
// hashFns over the whole string or the body after the header, and returns at most capPer pairs per (function, target).
func FindCollisionPairs(r *gen.Rand, v *spec.Version, n, capPer int) []CollisionPair {
	if n > 1<<24 {
		n = 1 << 24
	}
	seed := r.U64()
	targets := []int{0}
	if h := len(v.Header); h > 0 {
		if v.Header[h-1] == '/' {
			targets = append(targets, h-1, h) // "/AV:..." and "AV:..."
		} else {
			targets = append(targets, h, h+1)
		}
	}
	nk := len(hashFns) * len(targets)
	keys := make([][]uint64, nk)
	for k := range keys {
		keys[k] = make([]uint64, n)
	}
	nw := runtime.GOMAXPROCS(0)
	var wg sync.WaitGroup
	for w := 0; w < nw; w++ {
		wg.Add(1)
		go func(w int) {
			defer wg.Done()
			a := v.ZeroAssign()
			for i := w; i < n; i += nw {
				fullAssign(v, seed, i, a)
				s := []byte(v.Canonical(a))
				for ti, off := range targets {
					for hi, h := range hashFns {
						keys[ti*len(hashFns)+hi][i] = uint64(len(s)&0xff)<<56 | uint64(h.f(s[off:]))<<24 | uint64(i)
					}
				}
			}
		}(w)
	}
	wg.Wait()
	var out []CollisionPair
	a, b := v.ZeroAssign(), v.ZeroAssign()
	for k := range keys {
		ks := keys[k]
		slices.Sort(ks)
		got := 0
		for j := 1; j < len(ks) && got < capPer; j++ {
			if ks[j]>>24 != ks[j-1]>>24 {
				continue
			}
			fullAssign(v, seed, int(ks[j-1]&0xffffff), a)
			fullAssign(v, seed, int(ks[j]&0xffffff), b)
			sa, sb := v.Canonical(a), v.Canonical(b)
			if sa == sb || len(sa) != len(sb) {
				continue
			}
			how := hashFns[k%len(hashFns)].name
			if ti := k / len(hashFns); ti == 1 {
				how += "-from-slash-after-header"
			} else if ti == 2 {
				how += "-after-header"
			}
			out = append(out, CollisionPair{sa, sb, how})
			got++
		}
		keys[k] = nil
	}
	return out
}

// ObjCollisionPair is a pair of assignments whose PACKED representations (the struct's bytes as %v shows them) have the
// same value under one of hashFns: what a score / Vector() memo keyed on a 32-bit hash of the object confuses.
type ObjCollisionPair struct {
	A, B spec.Assign
	How  string
}

// FindObjCollisionPairs builds n objects through ParseVector (a mixture of fully defined and sparse assignments),
// hashes their packed bytes and returns at most capPer colliding pairs per hash function.
func FindObjCollisionPairs(r *gen.Rand, api *probe.API, n, capPer int) []ObjCollisionPair {
	if n > 1<<24 {
		n = 1 << 24
	}
	v := api.Ver
	seed := r.U64()
	mk := func(i int, a spec.Assign) {
		fullAssign(v, seed, i, a)
		if i&1 == 1 { // sparse half: every optional metric kept with probability 1/2
			x := seed ^ uint64(i)*0xd6e8feb86659fd93
			for m, me := range v.Metrics {
				if !me.Mandatory {
					x = x*6364136223846793005 + 1442695040888963407
					if x>>63 == 1 {
						a[m] = 0
					}
				}
			}
		}
	}
	keys := make([][]uint64, len(hashFns))
	for k := range keys {
		keys[k] = make([]uint64, n)
	}
	nw := runtime.GOMAXPROCS(0)
	var wg sync.WaitGroup
	for w := 0; w < nw; w++ {
		wg.Add(1)
		go func(w int) {
			defer wg.Done()
			a := v.ZeroAssign()
			var b []byte
			for i := w; i < n; i += nw {
				mk(i, a)
				o, err := api.Parse(v.Canonical(a))
				if err != nil || o == nil {
					continue // reported by the checks themselves
				}
				b = b[:0]
				for _, x := range packedKey(o) {
					b = append(b, byte(x))
				}
				for hi, h := range hashFns {
					keys[hi][i] = uint64(h.f(b))<<24 | uint64(i)
				}
			}
		}(w)
	}
	wg.Wait()
	var out []ObjCollisionPair
	for k := range keys {
		ks := keys[k]
		slices.Sort(ks)
		got := 0
		for j := 1; j < len(ks) && got < capPer; j++ {
			if ks[j]>>24 != ks[j-1]>>24 || ks[j] == 0 || ks[j-1] == 0 {
				continue
			}
			a, b := v.ZeroAssign(), v.ZeroAssign()
			mk(int(ks[j-1]&0xffffff), a)
			mk(int(ks[j]&0xffffff), b)
			if v.Canonical(a) == v.Canonical(b) {
				continue
			}
			out = append(out, ObjCollisionPair{a, b, hashFns[k].name})
			got++
		}
		keys[k] = nil
	}
	return out
}

// objCollisionPairs runs f on A, B, A, B ... of every pair, on one worker, and counts what was found.
func objCollisionPairs(c *Ctx, api *probe.API, f func(w *Worker, a spec.Assign, i int)) {
	pairs := FindObjCollisionPairs(c.Rand("object-collision-pairs", api.Ver.Name), api, c.Pick(1<<20, 1<<22), c.Pick(32, 256))
	c.Floor("object hash-collision pairs v"+api.Ver.Name, int64(len(pairs)), 40)
	c.mu.Lock()
	c.Counts["object-collision-pairs-v"+api.Ver.Name] += int64(len(pairs))
	c.mu.Unlock()
	c.Parallel("object-collision-pairs-"+api.Ver.Name, len(pairs), 1, func(w *Worker, i int) {
		for rep := 0; rep < 2; rep++ {
			f(w, pairs[i].A, 2*i)
			f(w, pairs[i].B, 2*i+1)
		}
		w.Count("object-collision-pair:" + pairs[i].How)
	})
}
