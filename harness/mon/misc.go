package mon

import (
	"fmt"
	"math"
	"math/big"
	"strings"

	"verifharness/gen"
	"verifharness/probe"
	"verifharness/spec"
)

// ---------------------------------------------------------------- C15

// ratingOracle is the interval function of C15 evaluated on the exact real
// value of the float64 (math/big), so it does not share float comparisons
// against float literals with the code under test.
func ratingOracle(x float64) (string, bool) {
	if math.IsInf(x, 0) {
		return "", false
	}
	r := new(big.Rat).SetFloat64(x)
	cmp := func(s string) int { t, _ := new(big.Rat).SetString(s); return r.Cmp(t) }
	switch {
	case cmp("0") < 0 || cmp("10") > 0:
		return "", false
	case cmp("0.1") < 0:
		return "NONE", true
	case cmp("4") < 0:
		return "LOW", true
	case cmp("7") < 0:
		return "MEDIUM", true
	case cmp("9") < 0:
		return "HIGH", true
	}
	return "CRITICAL", true
}

func CheckC15(c *Ctx) {
	apis := []*probe.API{probe.APIs[spec.V30], probe.APIs[spec.V31], probe.APIs[spec.V40]}
	one := func(w *Worker, x float64, label string) {
		if math.IsNaN(x) {
			return
		}
		want, ok := ratingOracle(x)
		for _, api := range apis {
			w.Enter("Rating", fstr(x))
			got, err, p := api.SafeRating(x)
			w.Leave()
			w.Eval()
			st := []Step{{Op: "rating", F: fstr(x)}}
			if p != nil {
				c.Violate(Violation{Kind: "rating-panic", Version: api.Ver.Name, Steps: st, Expected: "no panic", Observed: p.Val})
				continue
			}
			if ok {
				if err != nil || got != want {
					c.Violate(Violation{Kind: "wrong-rating", Version: api.Ver.Name, Steps: st, Expected: fmt.Sprintf("Rating(%s) = (%q, nil)", fstr(x), want), Observed: fmt.Sprintf("(%q, %v)", got, err), Detail: map[string]any{"class": label}})
				}
			} else {
				if api.Classify(err).Kind != probe.EOutOfBounds || got != "" {
					c.Violate(Violation{Kind: "wrong-rating", Version: api.Ver.Name, Steps: st, Expected: fmt.Sprintf("Rating(%s) = (\"\", ErrOutOfBoundsScore)", fstr(x)), Observed: fmt.Sprintf("(%q, %v)", got, err), Detail: map[string]any{"class": label}})
				}
			}
		}
		if ok {
			w.Count("oracle:" + want)
		} else {
			w.Count("oracle:out-of-bounds")
		}
		w.Count("class:" + label)
		c.Distinct.Add(math.Float64bits(x))
	}
	// complete part
	var fixed []float64
	var labels []string
	add := func(x float64, l string) { fixed = append(fixed, x); labels = append(labels, l) }
	for k := 0; k <= 100; k++ {
		add(float64(k)/10, "one-decimal-score")
	}
	for _, t := range []float64{0, 0.1, 4.0, 7.0, 9.0, 10.0} {
		add(t, "threshold")
		lo, hi := t, t
		for u := 0; u < 4; u++ {
			lo = math.Nextafter(lo, math.Inf(-1))
			hi = math.Nextafter(hi, math.Inf(1))
			add(lo, "threshold-ulps-below")
			add(hi, "threshold-ulps-above")
		}
		add(t-1e-9, "threshold-1e-9-below")
		add(t+1e-9, "threshold-1e-9-above")
		add(t-0.05, "threshold-0.05-below")
	}
	for _, x := range []float64{math.Copysign(0, -1), math.SmallestNonzeroFloat64, -math.SmallestNonzeroFloat64, math.Inf(1), math.Inf(-1), math.MaxFloat64, -math.MaxFloat64,
		0.09999999999999999, 3.9999999999999996, 6.999999999999999, 8.999999999999998, 10.000000000000002, -1e-300, 1e-300, 0.05, 3.95, 6.95, 8.95, 9.95, 10.05, -0.05, 11, -1, 100, 1e6} {
		add(x, "special")
	}
	// every one-decimal score as produced by different arithmetic, its ulp neighbours, and offsets at every decimal scale
	for k := 0; k <= 100; k++ {
		x := float64(k) / 10
		add(float64(k)*0.1, "k*0.1")
		sum := 0.0
		for j := 0; j < k; j++ {
			sum += 0.1
		}
		add(sum, "0.1-added-k-times")
		lo, hi := x, x
		for u := 0; u < 4; u++ {
			lo = math.Nextafter(lo, math.Inf(-1))
			hi = math.Nextafter(hi, math.Inf(1))
			add(lo, "score-ulps-below")
			add(hi, "score-ulps-above")
		}
		for j := 1; j <= 16; j++ {
			d := math.Pow(10, -float64(j))
			add(x-d, "score-minus-10^-j")
			add(x+d, "score-plus-10^-j")
			add(x+0.05-d, "midpoint-minus-10^-j")
			add(x+0.05+d, "midpoint-plus-10^-j")
		}
	}
	// REDUCED-PRECISION values: every one-decimal score, threshold and midpoint rounded to a k-bit mantissa for EVERY
	// k = 1..52 (k = 23: values that went through a float32 -- SQL REAL, protobuf float --, 10: half, 7: bfloat16),
	// down and up, with 1-3 neighbours at that precision on either side; a Rating that "recovers" or re-rounds such
	// values is wrong just below a threshold
	{
		trunc := func(x float64, k int) float64 { // keep k mantissa bits, round toward zero
			b := math.Float64bits(x)
			mask := ^uint64(0) << uint(52-k)
			return math.Float64frombits(b & mask)
		}
		step := func(x float64, k int) float64 { // one unit in the k-th mantissa bit at x's exponent
			_, e := math.Frexp(x)
			return math.Ldexp(1, e-1-k)
		}
		var pts []float64
		for k10 := 0; k10 <= 100; k10++ {
			pts = append(pts, float64(k10)/10, float64(k10)/10+0.05, float64(k10)/10-0.05)
		}
		pts = append(pts, 0.0995, 0.0999, 3.95, 3.99, 6.95, 6.99, 8.95, 8.99, 9.95, 10.05)
		for _, x := range pts {
			if x <= 0 {
				continue
			}
			for k := 1; k <= 52; k++ {
				t := trunc(x, k)
				d := step(x, k)
				for j := -3; j <= 3; j++ {
					add(t+float64(j)*d, "k-bit-mantissa-neighbourhood")
				}
			}
			add(float64(float32(x)), "through-float32")
			add(float64(math.Nextafter32(float32(x), 0)), "through-float32")
			add(float64(math.Nextafter32(float32(x), 100)), "through-float32")
		}
	}
	// every binary exponent with a few mantissa patterns, both signs (denormals included); every decimal magnitude
	for e := -1074; e <= 1023; e++ {
		for _, m := range []float64{1, 1.5, 1.25, 1.75, 1.0000000000000002, 1.9999999999999998} {
			x := math.Ldexp(m, e)
			add(x, "m*2^e")
			add(-x, "-m*2^e")
		}
	}
	// integer-conversion wrap-arounds: 2^k + j and c*2^32 + j for small j (whole and fractional)
	for k := 7; k <= 70; k++ {
		for j := -3.0; j <= 13; j += 0.5 {
			add(math.Ldexp(1, k)+j, "2^k+j")
			add(-(math.Ldexp(1, k) + j), "-(2^k+j)")
		}
	}
	for _, cc := range []float64{1, 2, 3, 255, 65535, 12345, 1 << 20, 1<<21 - 1} {
		for j := 0.0; j <= 12; j += 0.25 {
			add(cc*4294967296+j, "c*2^32+j")
			add(cc*65536+j, "c*2^16+j")
		}
	}
	for e := -324; e <= 308; e++ {
		for _, m := range []float64{1, 3, 9.999999999999999} {
			x := m * math.Pow(10, float64(e))
			add(x, "m*10^e")
			add(-x, "-m*10^e")
		}
	}
	c.Parallel("fixed", len(fixed), 8, func(w *Worker, i int) {
		one(w, fixed[i], labels[i])
		if i%9 == 0 {
			s, err, _ := apis[0].SafeRating(fixed[i])
			w.Sample(map[string]any{"score": fstr(fixed[i]), "class": labels[i], "rating": s, "err": fmt.Sprint(err)})
		}
	})
	c.Extra["fixed_points"] = len(fixed)
	// sampled part: random bit patterns (every exponent) and random values in [-1,11]
	c.Parallel("random", c.Pick(8_000_000, 600_000_000), 1<<14, func(w *Worker, i int) {
		u := w.R.U64()
		switch i & 3 {
		case 0:
			one(w, math.Float64frombits(u), "random-bit-pattern")
		case 1, 2:
			x := -1 + 12*float64(u>>11)/float64(1<<53)
			one(w, x, "random-in-[-1,11]")
		default:
			// a random value in [-1,11] that went through a float32 or keeps only 8-30 mantissa bits
			x := -1 + 12*float64(u>>11)/float64(1<<53)
			if u&1 == 0 {
				one(w, float64(float32(x)), "random-through-float32")
			} else {
				k := 8 + int(u>>1)%23
				one(w, math.Float64frombits(math.Float64bits(x)&(^uint64(0)<<uint(52-k))), "random-k-bit-mantissa")
			}
		}
	})
	for _, cl := range []string{"NONE", "LOW", "MEDIUM", "HIGH", "CRITICAL", "out-of-bounds"} {
		c.Floor("oracle class "+cl, c.Counts["oracle:"+cl], 10)
	}
	c.SetReport(Report{
		Rule:        "interval oracle of the statement evaluated on the exact real value of the float64 (math/big), applied to the three Rating functions (hence also their mutual agreement); error identity via errors.Is(ErrOutOfBoundsScore) and empty string. COMPLETE: all 101 one-decimal scores, each threshold 0/0.1/4/7/9/10 with 1-4 ulps below and above, +-1e-9, -0.0, +-smallest subnormal, +-Inf, +-MaxFloat64; every one-decimal score also as k*0.1 and as 0.1 added k times, with 1-4 ulps and +-10^-j (j=1..16) around it and around its midpoint to the next score; 2^k+j and c*2^32+j / c*2^16+j for small j (integer-conversion wrap-arounds); every one-decimal score, midpoint and near-threshold value rounded to a k-bit mantissa for every k = 1..52 with 3 neighbours at that precision either side (float32 / half / bfloat16 round trips); six mantissa patterns at EVERY binary exponent (-1074..1023, so every denormal magnitude) and three at every decimal exponent, both signs; sampled: random float64 bit patterns, random values in [-1,11], and such values through a float32 or cut to 8-30 mantissa bits. NaN skipped (unspecified). distinct = distinct float64 bit patterns",
		Assumptions: []string{"none beyond math/big"},
	})
	c.Finish()
}

// ---------------------------------------------------------------- C18

type defect struct {
	s    string
	kind string
	want probe.ErrKind
	abv  string // for typed errors
	pos  int
	site string
}

// inject enumerates single-defect neighbours of the well-formed vector s (elements el) of version v.
func inject(r *gen.Rand, v *spec.Version, s string, f func(d defect)) {
	hdr, el := gen.SplitElems(v, s)
	mk := func(out []string) string { return hdr + strings.Join(out, "/") }
	cp := func() []string { return append([]string{}, el...) }
	isV3 := v.ID == spec.V30 || v.ID == spec.V31
	orderErr := probe.EOrder
	siteFor := func(pos int) string {
		// v2: is the offending element located after a complete environmental group?
		if v.ID == spec.V20 && pos >= len(el) && (len(el) == 11 || len(el) == 14) {
			return "element-after-complete-environmental-group"
		}
		return "elsewhere"
	}
	otherVals := func(m int) []string {
		var out []string
		abv := v.Metrics[m].Abv
		_ = abv
		cand := []string{"", "Z", "n", "h", "x", "nd", "ND", "X", "NN", "HH", "Clear", "clear", "RED", "POC", "poc", "S", "s", " N", "N ", "0"}
		for _, x := range cand {
			if v.ValueIndex(m, x) < 0 {
				out = append(out, x)
			}
		}
		return out
	}
	for i, e := range el {
		k, val, _ := strings.Cut(e, ":")
		m := v.Index(k)
		// illegal values
		ov := otherVals(m)
		for _, bad := range []string{ov[r.Intn(len(ov))], ov[r.Intn(len(ov))], strings.ToLower(val), val + val, "", val + strings.Repeat("A", 256), val + strings.Repeat(val, 65536/len(val))} {
			if v.ValueIndex(m, bad) >= 0 {
				continue
			}
			out := cp()
			out[i] = k + ":" + bad
			f(defect{s: mk(out), kind: "illegal-value", want: probe.EValue, pos: i, site: "elsewhere"})
		}
		// the element loses its value together with the colon ("AV"), or carries a value with a second colon
		// ("AV:N:N"): the abbreviation is known and in place, what follows it is not one of its legal values
		for _, raw := range []string{k, k + ":" + val + ":" + val, k + ":" + val + ":"} {
			out := cp()
			out[i] = raw
			f(defect{s: mk(out), kind: "illegal-value-shape", want: probe.EValue, pos: i, site: "elsewhere"})
		}
		// repeated metric: adjacent, distant (end), with another legal value
		for _, at := range []int{i + 1, len(el), r.Intn(len(el) + 1)} {
			for _, dupVal := range []string{val, v.Metrics[m].Values[r.Intn(len(v.Metrics[m].Values))]} {
				out := append(append(append([]string{}, el[:at]...), k+":"+dupVal), el[at:]...)
				d := defect{s: mk(out), kind: "repeated-metric", pos: at}
				if isV3 {
					d.want, d.abv = probe.EDefinedN, k
				} else {
					d.want = orderErr
					// the offending element: the copy, unless it sits immediately before the
					// original (then the copy is in order and the original is the repeat)
					off := at
					if at == i {
						off = i + 1
					}
					d.pos = off
					d.site = siteFor(off)
				}
				f(d)
			}
		}
		// unknown abbreviation inserted before element i (and at the very end)
		unk := []string{"XX", strings.ToLower(k), k + "X", "M" + k + "Q", gen.AllAbvs[r.Intn(len(gen.AllAbvs))], "Z",
			// bytes that are not valid UTF-8, and valid non-ASCII: the error must carry the abbreviation byte for byte
			"\xff" + k, k[:1] + "\x80" + k[1:], k + "\xc3", "\u00e9" + k, k + strings.Repeat("Q", 300)}
		// look-alikes of this element's own abbreviation (same length, same first and/or last byte)
		if la := lookalikes(k); len(la) > 0 {
			unk = append(unk, la[r.Intn(len(la))], la[r.Intn(len(la))], la[len(la)-3], la[len(la)-4])
		} else {
			unk = append(unk, string(rune(k[0])+1), strings.ToLower(k)+k)
		}
		for _, u := range unk {
			if v.Index(u) >= 0 {
				continue
			}
			for _, at := range []int{i, len(el)} {
				out := append(append(append([]string{}, el[:at]...), u+":"+val), el[at:]...)
				d := defect{s: mk(out), kind: "unknown-abbreviation", pos: at}
				if isV3 {
					d.want, d.abv = probe.EInvalidAbv, u
				} else {
					d.want = orderErr
					d.site = siteFor(at)
				}
				f(d)
			}
		}
		// unknown abbreviation WITHOUT a colon ("XYZ"), and the empty abbreviation (":N"), inserted before element i / at the end
		for _, raw := range []string{"XYZ", strings.ToLower(k), k + "Q", ":" + val, ":"} {
			u, _, _ := strings.Cut(raw, ":")
			if v.Index(u) >= 0 {
				continue
			}
			for _, at := range []int{i, len(el)} {
				out := append(append(append([]string{}, el[:at]...), raw), el[at:]...)
				d := defect{s: mk(out), kind: "unknown-abbreviation-shape", pos: at}
				if isV3 {
					d.want, d.abv = probe.EInvalidAbv, u
				} else {
					d.want = orderErr
					d.site = siteFor(at)
				}
				f(d)
			}
		}
		// unknown abbreviation REPLACING element i's abbreviation (v2/v4: order error; v3 optional metric: *ErrInvalidMetric)
		if !isV3 || !v.Metrics[m].Mandatory {
			out := cp()
			out[i] = "Q" + k + ":" + val
			d := defect{s: mk(out), kind: "unknown-abbreviation-replacing", pos: i, site: "elsewhere"}
			if isV3 {
				d.want, d.abv = probe.EInvalidAbv, "Q"+k
			} else {
				d.want = orderErr
			}
			f(d)
		}
		// misplaced (v2/v4): adjacent swap and move to another position
		if !isV3 {
			if i+1 < len(el) {
				out := cp()
				out[i], out[i+1] = out[i+1], out[i]
				f(defect{s: mk(out), kind: "misplaced-swap", want: orderErr, pos: i, site: "elsewhere"})
			}
			j := r.Intn(len(el))
			if j != i {
				out := cp()
				x := out[i]
				out = append(out[:i], out[i+1:]...)
				out = append(out[:j], append([]string{x}, out[j:]...)...)
				f(defect{s: mk(out), kind: "misplaced-move", want: orderErr, pos: j, site: "elsewhere"})
			}
		}
		// missing base metric (v3)
		if isV3 && v.Metrics[m].Mandatory {
			out := append(append([]string{}, el[:i]...), el[i+1:]...)
			if len(out) > 0 {
				f(defect{s: mk(out), kind: "missing-base-metric", want: probe.EMissing, abv: k, pos: i})
			}
		}
	}
	// several base metrics missing (v3): the error names the FIRST missing one in specification order
	if isV3 {
		for k := 0; k < 6; k++ {
			var out []string
			first := ""
			drop := map[string]bool{}
			n := 2 + r.Intn(3)
			for len(drop) < n {
				drop[v.Metrics[r.Intn(8)].Abv] = true
			}
			for _, me := range v.Metrics[:8] {
				if drop[me.Abv] && first == "" {
					first = me.Abv
				}
			}
			for _, e := range el {
				kk, _, _ := strings.Cut(e, ":")
				if !drop[kk] {
					out = append(out, e)
				}
			}
			if len(out) > 0 {
				f(defect{s: mk(out), kind: "missing-several-base-metrics", want: probe.EMissing, abv: first, pos: -1})
			}
		}
	}
	// truncation at an element boundary inside a group that must be complete
	switch v.ID {
	case spec.V20:
		for n := 1; n < len(el); n++ {
			// complete prefixes: the base group, and base+temporal when the vector has a temporal group
			if n == 6 || (n == 9 && len(el) != 11) {
				continue
			}
			f(defect{s: mk(el[:n]), kind: "truncated-inside-group", want: probe.ETooShort, pos: n, site: "elsewhere"})
		}
	case spec.V40:
		for n := 0; n < 11; n++ {
			t := strings.TrimSuffix(hdr, "/")
			if n > 0 {
				t = hdr + strings.Join(el[:n], "/")
			}
			f(defect{s: t, kind: "truncated-inside-group", want: probe.ETooShort, pos: n, site: "elsewhere"})
		}
	}
	// header defects (v3, v4)
	if v.ID != spec.V20 {
		for _, h := range gen.Headers {
			if strings.HasPrefix(h, v.Header) {
				continue
			}
			body := s[len(v.Header):]
			if v.ID == spec.V40 && strings.HasSuffix(h, "/") {
				body = strings.TrimPrefix(body, "/")
			}
			t := h + body
			if strings.HasPrefix(t, v.Header) {
				continue
			}
			f(defect{s: t, kind: "header", want: probe.EHeader, pos: -1, site: "elsewhere"})
		}
	}
}

func CheckC18(c *Ctx) {
	for vi, api := range probe.APIs {
		api, vi := api, vi
		v := api.Ver
		var src []string
		gen.Cover(c.Rand("cover", v.Name), v, false, func(a spec.Assign) { src = append(src, v.Canonical(a)) })
		// SHAPE-complete sources: every set of at most 4 (v4: 3; thorough 5 / 4) optional metrics defined, with seeded
		// values over a seeded base -- the error for one defect must not depend on WHICH optional metrics are present
		{
			rs := c.Rand("shapes", v.Name)
			k := c.Pick(4, 5)
			if v.ID == spec.V40 {
				k = c.Pick(3, 4)
			}
			for _, sub := range gen.SparseSubsets(v, k) {
				a := gen.KSparseAssign(rs, v, 0)
				for _, m := range sub {
					a[m] = uint8(1 + rs.Intn(len(v.Metrics[m].Values)-1))
				}
				if v.ID == spec.V30 || v.ID == spec.V31 {
					if rs.Bool() {
						sp, _ := gen.RandomSpelling(rs, v, a)
						src = append(src, sp)
						continue
					}
				}
				src = append(src, v.Canonical(a))
			}
			c.Extra["shape_complete_sources_v"+v.Name] = len(gen.SparseSubsets(v, k))
		}
		r := c.Rand("valid", v.Name)
		nsrc := len(src) + c.Pick(4000, 200_000)
		for len(src) < nsrc {
			a := gen.MixedAssign(r, v)
			if v.ID == spec.V30 || v.ID == spec.V31 {
				// any order
				s, _ := gen.RandomSpelling(r, v, a)
				src = append(src, s)
			} else if r.Bool() {
				s, _ := gen.RandomSpelling(r, v, a)
				src = append(src, s)
			} else {
				src = append(src, v.Canonical(a))
			}
		}
		c.Parallel("inject-"+v.Name, len(src), 8, func(w *Worker, i int) {
			s := src[i]
			inject(w.R, v, s, func(d defect) {
				if ok, _, _ := v.Recognise(d.s); ok {
					w.Count("dropped-mutant-still-valid")
					return
				}
				w.Enter("ParseVector v"+v.Name, d.s)
				o, err, p := api.SafeParse(d.s)
				w.Leave()
				w.Eval()
				c.Distinct.Add(HashString(d.s) ^ uint64(vi))
				st := parseSteps(d.s)
				if p != nil {
					c.Violate(Violation{Kind: "parse-panic", Version: v.Name, Steps: st, Expected: "an error", Observed: p.Val})
					return
				}
				if err == nil || o != nil {
					// the statement says which error a vector with this defect YIELDS: no error at all is not that error
					// (C01 reports the same string as accepted-ill-formed)
					want := d.want.String()
					if d.abv != "" {
						want += "{" + d.abv + "}"
					}
					c.Violate(Violation{Kind: "defect-not-reported", Version: v.Name, Steps: st, Expected: want + " for defect " + d.kind + " at element " + fmt.Sprint(d.pos) + " of " + s,
						Observed: fmt.Sprintf("err=%v object-nil=%v", err, o == nil), Detail: map[string]any{"defect": d.kind, "site": d.site, "want": d.want.String()}})
					return
				}
				got := api.Classify(err)
				okk := got.Kind == d.want && (d.abv == "" || got.Abv == d.abv)
				w.Count(fmt.Sprintf("v%s:%s", v.Name, d.kind))
				w.Count("error:" + got.Kind.String())
				if d.kind == "repeated-metric" || d.kind == "missing-base-metric" {
					k := d.abv
					if k == "" {
						k = fmt.Sprint("pos", d.pos)
					}
					w.counts["cov:"+v.Name+":"+d.kind+":"+k]++
				}
				if !okk {
					want := d.want.String()
					if d.abv != "" {
						want += "{" + d.abv + "}"
					}
					c.Violate(Violation{Kind: "wrong-error-value", Version: v.Name, Steps: st, Expected: want + " for defect " + d.kind + " at element " + fmt.Sprint(d.pos) + " of " + s,
						Observed: got.String(), Detail: map[string]any{"defect": d.kind, "site": d.site, "got": got.Kind.String(), "want": d.want.String()}})
				}
				if w.nsample < 1<<12 {
					w.Sample(map[string]any{"version": v.Name, "defect": d.kind, "input": d.s, "error": got.String()})
				}
			})
		})
		// Get / Set error identities over the hostile matrix
		habv := hostileAbvs(v)
		hval := hostileValues()
		// the receiver: the zero object, the highest-code and lowest-code corner objects, and seeded full / sparse objects --
		// the error must not depend on the state of the object either
		var receivers []probe.Obj
		var recvVec []string
		{
			rr := c.Rand("getset-receivers", v.Name)
			receivers = append(receivers, api.New())
			recvVec = append(recvVec, "")
			cs := cornerAssigns(api)
			var as []spec.Assign
			if len(cs) > 0 {
				as = append(as, cs[0])
			}
			as = append(as, gen.RandomAssign(rr, v), gen.MixedAssign(rr, v), gen.Background(rr, v, 1), v.ZeroAssign())
			for _, a := range as {
				if o, err, _ := api.SafeParse(v.Canonical(a)); err == nil && o != nil {
					receivers = append(receivers, o)
					recvVec = append(recvVec, v.Canonical(a))
				}
			}
		}
		c.Extra["getset_receivers_v"+v.Name] = len(receivers)
		c.Parallel("getset-"+v.Name, len(habv)*len(receivers), 4, func(w *Worker, idx int) {
			i, ri := idx%len(habv), idx/len(habv)
			ab := habv[i]
			m := v.Index(ab)
			o := receivers[ri].Clone()
			newStep := Step{Op: "new"}
			if recvVec[ri] != "" {
				newStep = Step{Op: "parse", S: recvVec[ri]}
			}
			_ = newStep
			if m < 0 {
				_, err, p := probe.SafeGet(o, ab)
				w.Eval()
				if g := api.Classify(err); p != nil || g.Kind != probe.EInvalidAbv || g.Abv != ab {
					c.Violate(Violation{Kind: "wrong-error-value", Version: v.Name, Steps: []Step{newStep, {Op: "get", S: ab}}, Expected: fmt.Sprintf("*ErrInvalidMetric{%q}", ab), Observed: fmt.Sprint(g, p), Detail: map[string]any{"defect": "get-unknown-abbreviation", "site": "Get"}})
				}
				w.Count("get-unknown-abbreviation")
			}
			for _, val := range hval {
				if m >= 0 && v.ValueIndex(m, val) >= 0 {
					continue
				}
				q := o.Clone()
				err, p := probe.SafeSet(q, ab, val)
				w.Eval()
				g := api.Classify(err)
				if m < 0 {
					if p != nil || g.Kind != probe.EInvalidAbv || g.Abv != ab {
						c.Violate(Violation{Kind: "wrong-error-value", Version: v.Name, Steps: []Step{newStep, {Op: "set", S: ab, Val: val}}, Expected: fmt.Sprintf("*ErrInvalidMetric{%q}", ab), Observed: fmt.Sprint(g, p), Detail: map[string]any{"defect": "set-unknown-abbreviation", "site": "Set"}})
					}
					w.Count("set-unknown-abbreviation")
				} else {
					if p != nil || g.Kind != probe.EValue {
						c.Violate(Violation{Kind: "wrong-error-value", Version: v.Name, Steps: []Step{newStep, {Op: "set", S: ab, Val: val}}, Expected: "ErrInvalidMetricValue", Observed: fmt.Sprint(g, p), Detail: map[string]any{"defect": "set-illegal-value", "site": "Set"}})
					}
					w.Count("set-illegal-value")
				}
			}
		})
	}
	// coverage floors: every v3 metric duplicated, every base metric missing
	for _, vid := range []int{spec.V30, spec.V31} {
		v := spec.Versions[vid]
		dup, miss := 0, 0
		for _, me := range v.Metrics {
			if c.Counts["cov:"+v.Name+":repeated-metric:"+me.Abv] > 0 {
				dup++
			}
			if me.Mandatory && c.Counts["cov:"+v.Name+":missing-base-metric:"+me.Abv] > 0 {
				miss++
			}
		}
		c.Floor("v"+v.Name+" metrics duplicated at least once", int64(dup), 22)
		c.Floor("v"+v.Name+" base metrics missing at least once", int64(miss), 8)
	}
	for k := range c.Counts {
		if strings.HasPrefix(k, "cov:") {
			delete(c.Counts, k)
		}
	}
	c.SetReport(Report{
		Rule:        "defect injector with planted ground truth: for every element position of well-formed source vectors (pairwise cover + EVERY set of at most 4 / v4: 3 optional metrics defined (thorough 5 / 4) + seeded random spellings) it plants exactly one defect -- illegal value (5 variants; also the element reduced to its abbreviation without a colon, and values containing a second colon), repeated metric (adjacent / at the end / random place, same or other value), unknown abbreviation inserted (6 variants, before the element and at the end; also colon-less tokens and the empty abbreviation) or replacing, misplaced (swap / move; v2,v4), missing base metric (v3), truncation at element boundaries inside a group that must be complete (v2,v4), header variants (v3,v4) -- and the returned error must be the documented value under errors.Is / errors.As (+Abv). Mutants the recogniser still accepts are dropped; defect kinds whose value the statement does not fix (empty v2 string, garbage glued to a v4 header, empty element) are not generated. Get/Set: complete hostile abbreviation x value matrix on the zero object, the packed-code corner objects and seeded full / sparse objects (the error must not depend on the receiver's state). distinct = distinct defective strings",
		Assumptions: []string{"expected error per defect kind exactly as listed in C18's statement"},
	})
	c.Finish()
}
