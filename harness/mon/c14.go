package mon

import (
	"bufio"
	"encoding/hex"
	"encoding/json"
	"expvar"
	"fmt"
	"io"
	"os"
	"os/exec"
	"path/filepath"
	"reflect"
	"regexp"
	"runtime"
	"runtime/debug"
	"sort"
	"strconv"
	"strings"
	"sync"
	"sync/atomic"
	"time"
	"unsafe"

	"verifharness/gen"
	"verifharness/probe"
	"verifharness/spec"
)

// ---------------------------------------------------------------- C14
//
// Every call's observable result is reduced to a signature string; the
// property says the signature is a function of (op, args, receiver value)
// alone. Baselines come from a quiescent, freshly garbage-collected state and
// are themselves checked against the spec oracles and for reproducibility.

// sigParse is the observable outcome of ParseVector(s) for version api.
func sigParse(api *probe.API, s string) string {
	sig, _ := sigParseObj(api, s)
	return sig
}

// sigParseObj also hands out the returned object (nil when rejected), so that callers can keep it
// and verify later that it still is what it was.
func sigParseObj(api *probe.API, s string) (string, probe.Obj) {
	o, err, p := api.SafeParse(s)
	if p != nil {
		return "panic:" + p.Val, nil
	}
	if err != nil || o == nil {
		e := api.Classify(err)
		return fmt.Sprintf("reject obj-nil=%v %s", o == nil, e.String()), nil
	}
	return "accept " + sigObj(api, o), o
}

// heldErr is an error value obtained earlier with its observable identity at that time: an error
// that is a shared, later-rewritten instance would change under the caller's feet.
type heldErr struct {
	api  *probe.API
	err  error
	info probe.ErrInfo
	src  string
}

func (h *heldErr) check(st *c14State, after string) {
	if got := h.api.Classify(h.err); got != h.info {
		st.mismatch(Violation{Kind: "error-value-changed-by-a-later-call", Version: h.api.Ver.Name, Steps: []Step{{Op: "parse", S: h.src}, {Op: "parse", S: after}},
			Expected: "the error returned for " + h.src + " still is " + h.info.String(), Observed: got.String(), Detail: map[string]any{"later_call": after}})
	}
}

// held is an object obtained earlier together with everything observable about it at that time.
type held struct {
	api *probe.API
	o   probe.Obj
	sig string
	src string
}

func (h *held) check(st *c14State, after string) {
	if got := sigObj(h.api, h.o); got != h.sig {
		st.mismatch(Violation{Kind: "object-changed-by-a-later-call", Version: h.api.Ver.Name, Steps: []Step{{Op: "parse", S: h.src}, {Op: "parse", S: after}, {Op: "vector"}},
			Expected: "the object returned for " + h.src + " still is " + h.sig, Observed: got, Detail: map[string]any{"later_call": after}})
	}
}

// sigObj is everything observable about an object.
func sigObj(api *probe.API, o probe.Obj) string {
	var sb strings.Builder
	sb.WriteString(o.Bytes())
	v, p := probe.SafeVector(o)
	sb.WriteString(" vec=")
	sb.WriteString(v)
	if p != nil {
		sb.WriteString(" PANIC")
	}
	for i := range api.ScoreNames {
		f, p := probe.SafeScore(o, i)
		sb.WriteByte(' ')
		sb.WriteString(strconv.FormatFloat(f, 'g', -1, 64))
		if p != nil {
			sb.WriteString("PANIC")
		}
	}
	if api.Nomencl != nil {
		n, _ := api.SafeNomencl(o)
		sb.WriteByte(' ')
		sb.WriteString(n)
	}
	for _, me := range api.Ver.Metrics {
		g, err, _ := probe.SafeGet(o, me.Abv)
		sb.WriteByte(' ')
		sb.WriteString(g)
		if err != nil {
			sb.WriteString("!err")
		}
	}
	return sb.String()
}

// c14Alphabet returns ~40 inputs per version: valid vectors of very different
// lengths and shapes, and invalid ones of every error kind.
func c14Alphabet(r *gen.Rand, v *spec.Version) []string {
	var out []string
	seen := map[string]bool{}
	add := func(s string) {
		if !seen[s] {
			seen[s] = true
			out = append(out, s)
		}
	}
	full := gen.Background(r, v, 1)
	add(v.Canonical(v.ZeroAssign()))
	add(v.Canonical(full))
	// the LONGEST spelling of the version: every metric defined with its longest value
	{
		lg := v.ZeroAssign()
		for m, me := range v.Metrics {
			best := 0
			for vi, val := range me.Values {
				if (me.Mandatory || vi > 0) && len(val) >= len(me.Values[best]) {
					best = vi
				}
				if !me.Mandatory && best == 0 && vi > 0 {
					best = vi
				}
			}
			lg[m] = uint8(best)
		}
		add(v.Canonical(lg))
	}
	for i := 0; i < 10; i++ {
		a := gen.SparseAssign(r, v, i%5, 4)
		add(v.Canonical(a))
		s, _ := gen.RandomSpelling(r, v, a)
		add(s)
	}
	if v.ID == spec.V20 {
		t := v.ZeroAssign()
		t[6], t[7], t[8] = 1, 2, 3
		add(v.Canonical(t)) // 9 parts
		e := v.ZeroAssign()
		e[9], e[10], e[11], e[12], e[13] = 5, 4, 3, 2, 1
		add(v.Canonical(e)) // 11 parts
		// hostile to the pooled split buffer: many slashes, short strings, empty string
		add("")
		add("/////////////")
		add("AV:L/AC:L/Au:M/C:N/I:N/A:N/")
		add(v.Canonical(full) + "/AR:H")
		add(v.Canonical(full) + "/E:H/RL:U")
		add("AV:L")
		add("AV:L/AC:L/Au:M/C:N/I:N/A:N/E:H")
		add("AV:L/AC:L/Au:M/C:N/I:N/A:N/E:H/RL:U")
		add("AV:L/AC:L/Au:M/C:N/I:N/A:N/CDP:H/TD:H/CR:H/IR:H")
		// elements after a complete environmental group (with and without a temporal group)
		add(v.Canonical(e) + "/AR:L")
		add(v.Canonical(e) + "/")
		add(v.Canonical(e) + "/E:F/RL:OF/RC:C")
		add(v.Canonical(full) + "/")
	}
	// LATE failures on a fully populated state: every metric defined (seeded values, longest values, highest packed
	// codes), and the defect in the very last element -- whatever a failing call leaves behind in recycled state
	// (a pooled result object, a scratch record) is as large as it can be
	{
		srcs := []string{v.Canonical(full)}
		lgA := v.ZeroAssign()
		for m, me := range v.Metrics {
			lgA[m] = uint8(len(me.Values) - 1)
		}
		srcs = append(srcs, v.Canonical(lgA))
		if cs := cornerAssigns(probe.APIs[v.ID]); len(cs) > 0 {
			srcs = append(srcs, v.Canonical(cs[0]))
		}
		for _, src := range srcs {
			add(src) // the fully populated vector itself (its object joins the shared read-only objects)
			_, el := gen.SplitElems(v, src)
			if len(el) == 0 {
				continue
			}
			last := el[len(el)-1]
			k, _, _ := strings.Cut(last, ":")
			add(src + "/")
			add(src + "/XX:N")
			add(src + "/" + last)
			add(src[:len(src)-len(last)] + k + ":Z")
			add(src[:len(src)-len(last)] + k)
		}
	}
	// MANY parts: more '/'-separated parts than any fixed-size scratch buffer of the parsers has slots (17, 33, 65, 257)
	{
		src := v.Canonical(full)
		_, el := gen.SplitElems(v, src)
		for _, n := range []int{17, 33, 65, 257} {
			var sb strings.Builder
			sb.WriteString(src)
			for k := len(el); k < n; k++ {
				sb.WriteByte('/')
				sb.WriteString(el[k%len(el)])
			}
			add(sb.String())
		}
	}
	base := v.Canonical(full)
	for i := 0; len(out) < 64 && i < 400; i++ {
		m, _ := gen.Mutate(r, v, base)
		add(m)
	}
	add(gen.Soup(r))
	add(gen.Bytes(r))
	// one single-defect vector per defect kind of C18's injector (every error kind / site of the parser)
	kinds := map[string]bool{}
	inject(r, v, base, func(d defect) {
		k := d.kind + d.site
		if d.kind == "truncated-inside-group" {
			k += fmt.Sprint(d.pos % 4)
		}
		if !kinds[k] {
			kinds[k] = true
			add(d.s)
		}
	})
	return out
}

type c14Result struct {
	Mode           string           `json:"mode"`
	Events         int64            `json:"events"`
	Mismatches     []Violation      `json:"mismatches"`
	NMismatch      int64            `json:"n_mismatch"`
	Keys           int              `json:"distinct_keys"`
	KeysMulti      int              `json:"keys_seen_by_2plus_goroutines"`
	ContextPairs   int64            `json:"distinct_context_pairs"`
	Yields         int64            `json:"yields_taken"`
	StringsRecheck int64            `json:"strings_reverified"`
	Configs        []string         `json:"goroutines_x_gomaxprocs"`
	Sequences      int64            `json:"sequences"`
	PoolReuse      int64            `json:"pool_reuse_sequences"`
	Counters       map[string]int64 `json:"counters"`
	SampleInputs   []string         `json:"sample_inputs,omitempty"`
}

type c14State struct {
	mu     sync.Mutex
	res    *c14Result
	seed   int64
	keysBy map[string]uint64 // key -> bitmask of goroutine ids (mod 64)
	ctx    *Distinct
	rechk  atomic.Int64
	events atomic.Int64
}

func (s *c14State) mismatch(v Violation) {
	s.mu.Lock()
	s.res.NMismatch++
	if len(s.res.Mismatches) < 20 {
		s.res.Mismatches = append(s.res.Mismatches, v)
	}
	s.mu.Unlock()
}

type c14Input struct {
	ver  int
	s    string
	base string // baseline signature
}

// c14Baseline computes the baseline signatures in a quiescent state and validates them.
func c14Baseline(st *c14State, seed int64) (inputs []c14Input, shared [][]probe.Obj) {
	for vi, api := range probe.APIs {
		alpha := c14Alphabet(gen.New(seed, "C14", "alphabet", api.Ver.Name), api.Ver)
		for _, s := range alpha {
			inputs = append(inputs, c14Input{ver: vi, s: s})
		}
	}
	compute := func(order []int) []string {
		out := make([]string, len(inputs))
		for _, i := range order {
			runtime.GC()
			runtime.GC() // two cycles empty a sync.Pool (primary + victim)
			out[i] = sigParse(probe.APIs[inputs[i].ver], inputs[i].s)
		}
		return out
	}
	fwd := make([]int, len(inputs))
	rev := make([]int, len(inputs))
	for i := range fwd {
		fwd[i] = i
		rev[i] = len(inputs) - 1 - i
	}
	a, b := compute(fwd), compute(rev)
	shared = make([][]probe.Obj, spec.NVersions)
	for i := range inputs {
		in := &inputs[i]
		in.base = a[i]
		api := probe.APIs[in.ver]
		if a[i] != b[i] {
			st.mismatch(Violation{Kind: "result-depends-on-history", Version: api.Ver.Name, Steps: parseSteps(in.s), Expected: "same result in forward and reverse evaluation order: " + a[i], Observed: b[i]})
		}
		// the baseline itself must agree with the oracles
		ok, as, _ := api.Ver.Recognise(in.s)
		if ok != strings.HasPrefix(a[i], "accept ") {
			st.mismatch(Violation{Kind: "baseline-disagrees-with-grammar", Version: api.Ver.Name, Steps: parseSteps(in.s), Expected: fmt.Sprint("accept=", ok), Observed: a[i]})
		}
		if ok {
			if want := " vec=" + api.Ver.Canonical(as) + " "; !strings.Contains(a[i], want) {
				st.mismatch(Violation{Kind: "baseline-disagrees-with-canonical-form", Version: api.Ver.Name, Steps: parseSteps(in.s), Expected: want, Observed: a[i]})
			}
			if o, err, _ := api.SafeParse(in.s); err == nil && o != nil {
				shared[in.ver] = append(shared[in.ver], o)
			}
		}
	}
	return
}

// c14Stress runs goroutines x ops over the small shared input set.
func c14Stress(st *c14State, inputs []c14Input, shared [][]probe.Obj, G, procs, opsPer int, tag string) {
	prev := runtime.GOMAXPROCS(procs)
	defer runtime.GOMAXPROCS(prev)
	// private baselines of the shared objects
	type sh struct {
		o    probe.Obj
		copy probe.Obj
		sig  string
		vec  string
		ver  int
	}
	var objs []sh
	for vi := range shared {
		for _, o := range shared[vi] {
			v, _ := probe.SafeVector(o)
			objs = append(objs, sh{o: o, copy: o.Clone(), sig: sigObj(probe.APIs[vi], o), vec: strings.Clone(v), ver: vi})
		}
	}
	type pair struct{ s, clone string }
	var gring struct {
		mu sync.Mutex
		p  []pair
	}
	var wg sync.WaitGroup
	var gcTick atomic.Int64
	for g := 0; g < G; g++ {
		wg.Add(1)
		go func(g int) {
			defer wg.Done()
			r := gen.New(st.seed, "C14", "stress", tag, fmt.Sprint(g))
			ring := make([]pair, 0, 512)
			oring := make([]held, 0, 64)
			ering := make([]heldErr, 0, 64)
			prevKey := ""
			note := func(key string) {
				st.mu.Lock()
				st.keysBy[key] |= 1 << (uint(g) & 63)
				st.mu.Unlock()
				st.ctx.Add(HashString(prevKey + "\x00" + key))
				prevKey = key
				st.events.Add(1)
				if gcTick.Add(1)%10000 == 0 {
					runtime.GC()
				}
			}
			kcount := 0
			keep := func(p pair, what string) {
				kcount++
				if len(ring) < cap(ring) {
					ring = append(ring, p)
				} else {
					j := r.Intn(len(ring))
					if ring[j].s != ring[j].clone {
						st.mismatch(Violation{Kind: "returned-string-changed-afterwards", Steps: []Step{{Op: "vector"}}, Expected: ring[j].clone, Observed: ring[j].s, Detail: map[string]any{"returned_by": what}})
					}
					st.rechk.Add(1)
					ring[j] = p
				}
				if kcount%64 == 0 {
					gring.mu.Lock()
					if len(gring.p) < 4096 {
						gring.p = append(gring.p, p)
					} else {
						j := r.Intn(len(gring.p))
						q := gring.p[j]
						gring.p[j] = p
						if q.s != q.clone {
							st.mismatch(Violation{Kind: "returned-string-changed-afterwards", Steps: []Step{{Op: "vector"}}, Expected: q.clone, Observed: q.s, Detail: map[string]any{"returned_by": what}})
						}
						st.rechk.Add(1)
					}
					gring.mu.Unlock()
				}
			}
			keepErr := func(api *probe.API, err error, src string) {
				if err == nil {
					return
				}
				h := heldErr{api, err, api.Classify(err), src}
				if len(ering) < cap(ering) {
					ering = append(ering, h)
				} else {
					j := r.Intn(len(ering))
					ering[j].check(st, src)
					ering[j] = h
				}
			}
			for k := 0; k < opsPer; k++ {
				switch op := r.Intn(16); {
				case op < 6: // parse a shared input; keep some of the returned objects and re-verify them later
					in := &inputs[r.Intn(len(inputs))]
					api := probe.APIs[in.ver]
					got, obj := sigParseObj(api, in.s)
					note("parse:" + api.Ver.Name + ":" + in.s)
					if obj == nil && k%4 == 0 {
						if _, err, p := api.SafeParse(in.s); err != nil && p == nil {
							he := heldErr{api, err, api.Classify(err), in.s}
							if len(ering) < cap(ering) {
								ering = append(ering, he)
							} else {
								j := r.Intn(len(ering))
								ering[j].check(st, in.s)
								ering[j] = he
							}
						}
					}
					if obj != nil {
						h := held{api, obj, got[len("accept "):], in.s}
						if len(oring) < cap(oring) {
							oring = append(oring, h)
						} else {
							j := r.Intn(len(oring))
							oring[j].check(st, in.s)
							oring[j] = h
						}
					}
					if got != in.base {
						st.mismatch(Violation{Kind: "result-depends-on-concurrency-or-history", Version: api.Ver.Name, Steps: parseSteps(in.s), Expected: in.base, Observed: got, Detail: map[string]any{"workload": tag, "goroutine": g}})
					}
				case op < 9: // everything observable of a shared read-only object
					x := &objs[r.Intn(len(objs))]
					got := sigObj(probe.APIs[x.ver], x.o)
					note("obj:" + x.vec)
					if got != x.sig {
						st.mismatch(Violation{Kind: "shared-object-result-changed", Version: spec.Versions[x.ver].Name, Steps: append(parseSteps(x.vec), Step{Op: "vector"}, Step{Op: "score"}), Expected: x.sig, Observed: got, Detail: map[string]any{"workload": tag}})
					}
					{
						// strings returned by Get / Nomenclature and errors returned by Get / Set are the caller's too: keep them
						api := probe.APIs[x.ver]
						me := api.Ver.Metrics[r.Intn(api.Ver.N())]
						if gs, gerr, _ := probe.SafeGet(x.o, me.Abv); gerr == nil {
							keep(pair{gs, strings.Clone(gs)}, "Get")
						}
						if api.Nomencl != nil {
							ns, _ := api.SafeNomencl(x.o)
							keep(pair{ns, strings.Clone(ns)}, "Nomenclature")
						}
						bad := []string{"XX", me.Abv + "Q", strings.ToLower(me.Abv), "M" + me.Abv}[r.Intn(4)]
						if api.Ver.Index(bad) < 0 {
							_, gerr, _ := probe.SafeGet(x.o, bad)
							keepErr(api, gerr, "get:"+bad)
							cl := x.o.Clone()
							serr, _ := probe.SafeSet(cl, bad, "N")
							keepErr(api, serr, "set:"+bad)
							serr2, _ := probe.SafeSet(cl, me.Abv, "nope")
							keepErr(api, serr2, "set-value:"+me.Abv)
						}
					}
				case op < 11: // Vector(): keep the string next to a clone taken immediately
					x := &objs[r.Intn(len(objs))]
					s, _ := probe.SafeVector(x.o)
					p := pair{s, strings.Clone(s)}
					note("vector:" + x.vec)
					if s != x.vec {
						st.mismatch(Violation{Kind: "vector-result-changed", Version: spec.Versions[x.ver].Name, Steps: append(parseSteps(x.vec), Step{Op: "vector"}), Expected: x.vec, Observed: s})
					}
					keep(p, "vector")
				case op < 13: // copy independence: Set on a goroutine-local copy of a shared object
					x := &objs[r.Intn(len(objs))]
					v := spec.Versions[x.ver]
					c := x.o.Clone()
					m := r.Intn(v.N())
					val := v.Metrics[m].Values[r.Intn(len(v.Metrics[m].Values))]
					err, _ := probe.SafeSet(c, v.Metrics[m].Abv, val)
					g2, _, _ := probe.SafeGet(c, v.Metrics[m].Abv)
					note("set-on-copy:" + v.Name + ":" + v.Metrics[m].Abv + "=" + val)
					if err != nil || g2 != val || !x.o.Equal(x.copy) {
						st.mismatch(Violation{Kind: "copy-not-independent", Version: v.Name, Steps: append(parseSteps(x.vec), Step{Op: "clone"}, Step{Op: "set", S: v.Metrics[m].Abv, Val: val}), Expected: "copy changed, original == " + x.copy.Bytes(), Observed: fmt.Sprint(err, g2, x.o.Bytes())})
					}
				case op < 14: // receiver history: score, Set, score ... on ONE local object; results must equal those of a freshly parsed object with the same values
					x := &objs[r.Intn(len(objs))]
					v := spec.Versions[x.ver]
					api := probe.APIs[x.ver]
					c := x.o.Clone()
					_ = sigObj(api, c) // observe before mutating (primes any per-object memoisation)
					for j := 0; j < 3; j++ {
						m := r.Intn(v.N())
						val := v.Metrics[m].Values[r.Intn(len(v.Metrics[m].Values))]
						probe.SafeSet(c, v.Metrics[m].Abv, val)
						got := sigObj(api, c)
						vec, _ := probe.SafeVector(c)
						f, err, _ := api.SafeParse(vec)
						note("mutate-score:" + v.Name)
						if err != nil || f == nil {
							st.mismatch(Violation{Kind: "own-vector-rejected", Version: v.Name, Steps: parseSteps(vec), Expected: "accepted", Observed: fmt.Sprint(err)})
							break
						}
						if x.ver == spec.V40 {
							// the v4 oracle is cheap and shares no state with the library: a memo that poisons BOTH the
							// mutated object's and the freshly parsed object's result is still seen
							if a, fail := readAll(c, v); fail == "" {
								wantK := spec.V4Score(spec.V4Effective(a)).K
								if sc, _ := probe.SafeScore(c, 0); sc != float64(wantK)/10 {
									st.mismatch(Violation{Kind: "result-depends-on-receiver-history", Version: v.Name, Steps: append(parseSteps(x.vec), Step{Op: "score"}, Step{Op: "set", S: v.Metrics[m].Abv, Val: val}, Step{Op: "score"}), Expected: fmt.Sprintf("Score = %.1f (specification) for %s", float64(wantK)/10, vec), Observed: fmt.Sprint(sc)})
									break
								}
							}
						}
						if want := sigObj(api, f); got != want {
							st.mismatch(Violation{Kind: "result-depends-on-receiver-history", Version: v.Name, Steps: append(parseSteps(x.vec), Step{Op: "score"}, Step{Op: "set", S: v.Metrics[m].Abv, Val: val}, Step{Op: "score"}), Expected: "as for a freshly parsed " + vec + ": " + want, Observed: got})
							break
						}
					}
				case op < 15: // the object returned by ParseVector is the caller's: mutate it, parse again
					in := &inputs[r.Intn(len(inputs))]
					api := probe.APIs[in.ver]
					o1, err, _ := api.SafeParse(in.s)
					note("parse-mutate-parse:" + api.Ver.Name + ":" + in.s)
					if err == nil && o1 != nil {
						v := api.Ver
						for m := range v.Metrics {
							probe.SafeSet(o1, v.Metrics[m].Abv, v.Metrics[m].Values[r.Intn(len(v.Metrics[m].Values))])
						}
						if got := sigParse(api, in.s); got != in.base {
							st.mismatch(Violation{Kind: "parse-result-aliases-earlier-result", Version: v.Name, Steps: append(parseSteps(in.s), Step{Op: "set", S: v.Metrics[0].Abv, Val: v.Metrics[0].Values[0]}, Step{Op: "parse", S: in.s}), Expected: in.base, Observed: got})
						}
					}
				default: // Rating
					x := float64(r.Intn(1300)-100) / 100
					want, ok := ratingOracle(x)
					for _, vid := range []int{spec.V30, spec.V31, spec.V40} {
						got, err, _ := probe.APIs[vid].SafeRating(x)
						keep(pair{got, strings.Clone(got)}, "Rating")
						keepErr(probe.APIs[vid], err, "rating")
						if (err == nil) != ok || got != want {
							st.mismatch(Violation{Kind: "rating-result-changed", Version: spec.Versions[vid].Name, Steps: []Step{{Op: "rating", F: fstr(x)}}, Expected: want, Observed: got})
						}
					}
					note("rating")
				}
			}
			for k := range oring {
				oring[k].check(st, "<end of run>")
			}
			for k := range ering {
				ering[k].check(st, "<end of run>")
			}
			for _, p := range ring {
				if p.s != p.clone {
					st.mismatch(Violation{Kind: "returned-string-changed-afterwards", Steps: []Step{{Op: "vector"}}, Expected: p.clone, Observed: p.s})
				}
				st.rechk.Add(1)
			}
		}(g)
	}
	wg.Wait()
	for _, p := range gring.p {
		if p.s != p.clone {
			st.mismatch(Violation{Kind: "returned-string-changed-afterwards", Steps: []Step{{Op: "vector"}}, Expected: p.clone, Observed: p.s})
		}
		st.rechk.Add(1)
	}
	st.res.Configs = append(st.res.Configs, fmt.Sprintf("%s: %d goroutines x GOMAXPROCS %d x %d ops", tag, G, procs, opsPer))
}

// c14History: sequential histories hostile to pooled scratch state. With
// GOMAXPROCS(1) and GC off a sync.Pool hands the previous call's buffer to
// the next call, so the stale part of the buffer is exactly the previous input.
func c14History(st *c14State, inputs []c14Input, randomSeqs int, full, triples bool) {
	prev := runtime.GOMAXPROCS(1)
	defer runtime.GOMAXPROCS(prev)
	old := debug.SetGCPercent(-1)
	defer debug.SetGCPercent(old)
	byVer := make([][]int, spec.NVersions)
	for i, in := range inputs {
		byVer[in.ver] = append(byVer[in.ver], i)
	}
	run := func(seq []int) {
		var kept []held
		var keptErr []heldErr
		for pos, i := range seq {
			in := &inputs[i]
			got, obj := sigParseObj(probe.APIs[in.ver], in.s)
			st.events.Add(1)
			// every object handed out earlier in this sequence must be untouched by this call
			for k := range kept {
				kept[k].check(st, in.s)
			}
			if obj != nil && len(kept) < 8 {
				kept = append(kept, held{probe.APIs[in.ver], obj, got[len("accept "):], in.s})
			}
			for k := range keptErr {
				keptErr[k].check(st, in.s)
			}
			if obj == nil && len(keptErr) < 8 {
				if _, err, p := probe.APIs[in.ver].SafeParse(in.s); err != nil && p == nil {
					keptErr = append(keptErr, heldErr{probe.APIs[in.ver], err, probe.APIs[in.ver].Classify(err), in.s})
				}
			}
			if got != in.base {
				var steps []Step
				for _, j := range seq[:pos+1] {
					steps = append(steps, Step{Op: "parse", S: inputs[j].s})
				}
				st.mismatch(Violation{Kind: "result-depends-on-history", Version: spec.Versions[in.ver].Name, Steps: steps, Expected: in.base, Observed: got, Detail: map[string]any{"sequence_length": len(seq), "position": pos}})
				return
			}
		}
		st.res.Sequences++
	}
	for vi := range byVer {
		ids := byVer[vi]
		if !full {
			break
		}
		for _, a := range ids {
			for _, b := range ids {
				run([]int{a, b})
				if vi == spec.V20 {
					st.res.PoolReuse++
				}
			}
		}
		// triples: complete for v2 (the only version with shared scratch state today), strided elsewhere
		if !triples {
			continue
		}
		stride := 1
		if vi != spec.V20 {
			stride = 7
		}
		n := 0
		for _, a := range ids {
			for _, b := range ids {
				for _, c := range ids {
					if n%stride == 0 {
						run([]int{a, b, c})
						if vi == spec.V20 {
							st.res.PoolReuse++
						}
					}
					n++
				}
			}
		}
	}
	// cross-version and long random sequences
	r := gen.New(st.seed, "C14", "history-random")
	for k := 0; k < randomSeqs; k++ {
		n := 2 + r.Intn(49)
		seq := make([]int, n)
		for j := range seq {
			seq[j] = r.Intn(len(inputs))
		}
		run(seq)
	}
}

// c14Aliased: inputs that SHARE THEIR MEMORY with earlier inputs. A caller that reads vectors into one reused
// buffer and hands them over without copying (unsafe.String), or simply a garbage-collected input whose memory is
// given to the next one, presents different contents at the same address and length: anything keyed on the string
// header instead of the contents (a "same input as last time" fast path) answers with the previous result. All
// ordered pairs per version, (i) both inputs written into the same buffer and passed as views of it, (ii) both as
// fresh heap copies that are dropped at once, with a forced GC every 8 calls. Compared with the baseline at once
// (errors may legitimately keep a substring of the input).
func c14Aliased(st *c14State, inputs []c14Input) {
	byVer := make([][]int, spec.NVersions)
	max := 1
	for i, in := range inputs {
		byVer[in.ver] = append(byVer[in.ver], i)
		if len(in.s) > max {
			max = len(in.s)
		}
	}
	buf := make([]byte, max)
	view := func(s string) string {
		if len(s) == 0 {
			return ""
		}
		copy(buf, s)
		return unsafe.String(&buf[0], len(s))
	}
	var n int64
	for _, mode := range []string{"same-buffer", "fresh-copy-then-GC"} {
		for _, ids := range byVer {
			for _, a := range ids {
				for _, b := range ids {
					for _, i := range [2]int{a, b} {
						in := &inputs[i]
						var arg string
						if mode == "same-buffer" {
							arg = view(in.s)
						} else {
							arg = string(append([]byte(nil), in.s...))
						}
						got := sigParse(probe.APIs[in.ver], arg)
						n++
						if mode != "same-buffer" && n%8 == 0 {
							runtime.GC()
						}
						if got != in.base {
							st.mismatch(Violation{Kind: "result-depends-on-input-address", Version: spec.Versions[in.ver].Name, Steps: []Step{{Op: "parse", S: inputs[a].s}, {Op: "parse", S: inputs[b].s}}, Expected: in.base, Observed: got,
								Detail: map[string]any{"workload": "aliased-inputs", "mode": mode, "note": "the two inputs occupied the same memory one after the other; the replay passes independent strings and may not reproduce it"}})
							break
						}
					}
				}
			}
		}
	}
	st.events.Add(n)
	st.res.Counters["aliased_input_calls"] = n
}

// poisonError overwrites every exported, settable string field of a struct error the caller was handed
// (reflection; sentinel errors have none). What a caller does to ITS error value must not reach later calls.
func poisonError(err error) int {
	n := 0
	v := reflect.ValueOf(err)
	if v.Kind() != reflect.Ptr || v.IsNil() || v.Elem().Kind() != reflect.Struct {
		return 0
	}
	e := v.Elem()
	for i := 0; i < e.NumField(); i++ {
		f := e.Field(i)
		if f.CanSet() && f.Kind() == reflect.String {
			f.SetString("POISONED-BY-THE-CALLER")
			n++
		}
	}
	return n
}

// c14Poison: every rejected input of the alphabet is parsed, the error it returned is overwritten by the caller, and
// the same input is parsed again: the result must still equal the baseline (a shared error instance handed to every
// caller is library state that callers can reach). The same for the errors of Get and Set on unknown abbreviations.
func c14Poison(st *c14State, inputs []c14Input) {
	var n, fields int64
	for i := range inputs {
		in := &inputs[i]
		api := probe.APIs[in.ver]
		_, err, p := api.SafeParse(in.s)
		if err == nil || p != nil {
			continue
		}
		fields += int64(poisonError(err))
		n++
		if got := sigParse(api, in.s); got != in.base {
			st.mismatch(Violation{Kind: "returned-error-shares-state-with-later-results", Version: api.Ver.Name, Steps: []Step{{Op: "parse", S: in.s}, {Op: "parse", S: in.s}}, Expected: in.base, Observed: got,
				Detail: map[string]any{"workload": "poison", "note": "between the two calls the caller overwrote the exported fields of the error value it had been given; the replay does not"}})
		}
	}
	for _, api := range probe.APIs {
		o := api.New()
		for _, bad := range []string{"XX", "", "av", "MAVV"} {
			if api.Ver.Index(bad) >= 0 {
				continue
			}
			for _, isSet := range []bool{false, true} {
				call := func() error {
					if isSet {
						e, _ := probe.SafeSet(o.Clone(), bad, "N")
						return e
					}
					_, e, _ := probe.SafeGet(o, bad)
					return e
				}
				e1 := call()
				if e1 == nil {
					continue
				}
				before := api.Classify(e1)
				fields += int64(poisonError(e1))
				n++
				if after := api.Classify(call()); after != before {
					st.mismatch(Violation{Kind: "returned-error-shares-state-with-later-results", Version: api.Ver.Name, Steps: []Step{{Op: "new"}, {Op: "get", S: bad}}, Expected: before.String(), Observed: after.String(), Detail: map[string]any{"workload": "poison", "set": isSet}})
				}
			}
		}
	}
	st.events.Add(n)
	st.res.Counters["poisoned_errors"] = n
	st.res.Counters["poisoned_fields"] = fields
}

// c14Purity: only Set may change its receiver. Every packed-corner, literal-guided and explicit-copy object of every
// version is parsed, cloned, observed through EVERY read-only method (Vector, all scores, Nomenclature, every Get)
// and must afterwards still be == its clone and give the same observations a second time.
func c14Purity(st *c14State) {
	var n int64
	for _, api := range probe.APIs {
		v := api.Ver
		list := cornerAssigns(api)
		for i, a := range list {
			if i > 20000 {
				break
			}
			s := v.Canonical(a)
			o, err, p := api.SafeParse(s)
			if err != nil || o == nil || p != nil {
				continue
			}
			before := o.Clone()
			sig1 := sigObj(api, o)
			n++
			if !o.Equal(before) {
				st.mismatch(Violation{Kind: "read-only-method-changed-receiver", Version: v.Name, Steps: append(parseSteps(s), Step{Op: "vector"}, Step{Op: "score"}), Expected: "object still == " + before.Bytes() + " after Vector / scores / Nomenclature / Get", Observed: o.Bytes(), Detail: map[string]any{"workload": "purity"}})
				continue
			}
			if sig2 := sigObj(api, o); sig2 != sig1 {
				st.mismatch(Violation{Kind: "result-depends-on-receiver-history", Version: v.Name, Steps: append(parseSteps(s), Step{Op: "score"}, Step{Op: "score"}), Expected: sig1, Observed: sig2, Detail: map[string]any{"workload": "purity"}})
			}
		}
	}
	st.events.Add(n)
	st.res.Counters["purity_objects"] = n
}

// c14CounterWraps: 32-bit call counters. A ring cursor, a generation or a statistics counter kept in an int32 / uint32
// goes negative or back to zero after 2^31 / 2^32 calls of one function in one process -- more calls than any other
// workload makes. 16 goroutines make 2^31 + 4,096 calls of the cheapest form of an exported function (ParseVector of a
// rejected empty input; thorough: a second 2^31 to pass 2^32, and also Get, Vector, the first score, Rating and
// Nomenclature on a valid object), every call checked for a panic and a plausible result; afterwards every alphabet
// input of the version must still give its baseline.
func c14CounterWraps(st *c14State, inputs []c14Input, quick bool) {
	prev := runtime.GOMAXPROCS(16)
	defer runtime.GOMAXPROCS(prev)
	const G = 16
	for vi, api := range probe.APIs {
		api := api
		v := api.Ver
		valid := v.Canonical(v.ZeroAssign())
		obj, _, _ := api.SafeParse(valid)
		if obj == nil {
			continue
		}
		wantVec, _ := probe.SafeVector(obj)
		wantScore, _ := probe.SafeScore(obj, 0)
		type op struct {
			name string
			f    func() bool
		}
		ops := []op{{"ParseVector(rejected)", func() bool { o, err, p := api.SafeParse(""); return p == nil && err != nil && o == nil }}}
		if !quick {
			ops = append(ops,
				op{"Get", func() bool {
					g, err, p := probe.SafeGet(obj, v.Metrics[0].Abv)
					return p == nil && err == nil && g == v.Metrics[0].Values[0]
				}},
				op{"Score", func() bool { f, p := probe.SafeScore(obj, 0); return p == nil && f == wantScore }},
				op{"Vector", func() bool { s, p := probe.SafeVector(obj); return p == nil && s == wantVec }})
			if api.Nomencl != nil {
				ops = append(ops, op{"Nomenclature", func() bool { n, p := api.SafeNomencl(obj); return p == nil && n == "CVSS-B" }})
			}
			if vi != spec.V20 {
				ops = append(ops, op{"Rating", func() bool { r, err, p := api.SafeRating(5.0); return p == nil && err == nil && r == "MEDIUM" }})
			}
		}
		for _, o := range ops {
			if o.name == "Vector" && quick {
				continue
			}
			phases := 1
			if !quick && o.name != "Vector" && o.name != "Score" {
				phases = 2
			}
			for ph := 0; ph < phases; ph++ {
				per := (int64(1)<<31)/G + 256
				var wg sync.WaitGroup
				var bad atomic.Int64
				for g := 0; g < G; g++ {
					wg.Add(1)
					go func() {
						defer wg.Done()
						for i := int64(0); i < per; i++ {
							if !o.f() {
								bad.Add(1)
								return
							}
						}
					}()
				}
				wg.Wait()
				st.res.Counters["counter_wrap_calls"] += per * G
				if bad.Load() > 0 {
					st.mismatch(Violation{Kind: "result-depends-on-call-count", Version: v.Name, Steps: parseSteps(valid), Expected: o.name + " keeps answering as before", Observed: fmt.Sprintf("wrong result or panic within the %d. block of 2^31 calls of %s in this process", ph+1, o.name),
						Detail: map[string]any{"workload": "counter-wraps", "note": "needs about 2^31 earlier calls: the replay makes one and will not reproduce it"}})
					break
				}
			}
		}
		for i := range inputs {
			in := &inputs[i]
			if in.ver != vi {
				continue
			}
			if got := sigParse(api, in.s); got != in.base {
				st.mismatch(Violation{Kind: "result-depends-on-call-count", Version: v.Name, Steps: parseSteps(in.s), Expected: in.base, Observed: got, Detail: map[string]any{"workload": "counter-wraps", "note": "after more than 2^31 calls in this process"}})
				break
			}
		}
	}
}

// c14Periods: counter wrap-arounds. State that is "cleared" by bumping a generation counter instead of being
// zeroed looks current again after exactly 2^8 or 2^16 calls. For every version: a vector X with every optional
// metric defined, then d-1 calls on a base-only vector Y, then X again, for d in {255,256,257,65535,65536,65537};
// every result (the Y calls too) must equal its reference. One goroutine, one P, GC off (pooled state survives).
func c14Periods(st *c14State) {
	prev := runtime.GOMAXPROCS(1)
	defer runtime.GOMAXPROCS(prev)
	old := debug.SetGCPercent(-1)
	defer debug.SetGCPercent(old)
	var n int64
	for _, api := range probe.APIs {
		v := api.Ver
		r := gen.New(st.seed, "C14", "periods", v.Name)
		X := gen.RandomAssign(r, v)
		for m, me := range v.Metrics {
			if !me.Mandatory && X[m] == 0 {
				X[m] = uint8(1 + r.Intn(len(me.Values)-1))
			}
		}
		sX, sY := v.Canonical(X), v.Canonical(v.ZeroAssign())
		sigParse(api, sY)
		refX := sigParse(api, sX)
		refY := sigParse(api, sY)
		if !strings.Contains(refX, " vec="+sX+" ") || !strings.Contains(refY, " vec="+sY+" ") {
			st.mismatch(Violation{Kind: "baseline-disagrees-with-canonical-form", Version: v.Name, Steps: parseSteps(sX), Expected: sX, Observed: refX})
			continue
		}
	dist:
		for _, d := range []int{255, 256, 257, 65535, 65536, 65537} {
			if got := sigParse(api, sX); got != refX {
				st.mismatch(Violation{Kind: "result-depends-on-call-count", Version: v.Name, Steps: parseSteps(sX), Expected: refX, Observed: got, Detail: map[string]any{"workload": "periods", "note": "first call of a period probe"}})
				break
			}
			for i := 1; i < d; i++ {
				if got := sigParse(api, sY); got != refY {
					st.mismatch(Violation{Kind: "result-depends-on-call-count", Version: v.Name, Steps: []Step{{Op: "parse", S: sX}, {Op: "parse", S: sY}}, Expected: refY, Observed: got, Detail: map[string]any{"workload": "periods", "calls_since_X": i}})
					break dist
				}
			}
			n += int64(d)
			if got := sigParse(api, sX); got != refX {
				st.mismatch(Violation{Kind: "result-depends-on-call-count", Version: v.Name, Steps: []Step{{Op: "parse", S: sX}, {Op: "parse", S: sY}, {Op: "parse", S: sX}}, Expected: refX, Observed: got,
					Detail: map[string]any{"workload": "periods", "distance_in_calls": d, "note": fmt.Sprintf("the second step stands for %d calls on the base-only vector; the replay makes one and will not reproduce it", d-1)}})
				break
			}
		}
	}
	st.events.Add(n)
	st.res.Counters["period_probe_calls"] = n
}

// c14Siblings: sequential histories over SIBLING objects. A memo or cache keyed on a lossy fold of the object
// (two fields XOR-ed onto the same bits, a byte left out) is right for every single call and for unrelated
// consecutive calls; it is wrong exactly when two consecutive calls are on objects that differ in the two or three
// metrics that alias each other. For background objects B of every version: EVERY object A that differs from B in
// exactly two metrics (every pair of metrics x every pair of other values; with triples: also in exactly three),
// and the histories  Z,A (reference for A after an unrelated call)  then  B (B after A)  then  A (A after B):
// every result must equal the reference obtained after the unrelated call Z. Single goroutine.
func c14Siblings(st *c14State, backgrounds, tripleBackgrounds int) {
	var nPairs, nTriples, nSingles int64
	for _, api := range probe.APIs {
		v := api.Ver
		r := gen.New(st.seed, "C14", "siblings", v.Name)
		for b := 0; b < backgrounds; b++ {
			var B spec.Assign
			switch b {
			case 0:
				B = v.ZeroAssign()
			case 1:
				B = v.ZeroAssign()
				for m, me := range v.Metrics {
					B[m] = uint8(len(me.Values) - 1)
				}
			default:
				B = gen.MixedAssign(r, v)
			}
			Z := gen.RandomAssign(r, v)
			sB, sZ := v.Canonical(B), v.Canonical(Z)
			sigParse(api, sZ)
			refB := sigParse(api, sB)
			if !strings.Contains(refB, " vec="+sB+" ") {
				st.mismatch(Violation{Kind: "baseline-disagrees-with-canonical-form", Version: v.Name, Steps: parseSteps(sB), Expected: sB, Observed: refB})
				continue
			}
			one := func(A spec.Assign) bool {
				sA := v.Canonical(A)
				sigParse(api, sZ)
				refA := sigParse(api, sA)
				gotB := sigParse(api, sB)
				gotA := sigParse(api, sA)
				st.events.Add(4)
				if !strings.Contains(refA, " vec="+sA+" ") {
					st.mismatch(Violation{Kind: "result-depends-on-history", Version: v.Name, Steps: []Step{{Op: "parse", S: sB}, {Op: "parse", S: sZ}, {Op: "parse", S: sA}}, Expected: "vec=" + sA, Observed: refA, Detail: map[string]any{"workload": "siblings"}})
					return false
				}
				if gotB != refB {
					st.mismatch(Violation{Kind: "result-depends-on-history", Version: v.Name, Steps: []Step{{Op: "parse", S: sA}, {Op: "parse", S: sB}}, Expected: refB, Observed: gotB, Detail: map[string]any{"workload": "siblings", "note": "the second object differs from the first in 2-3 metrics only"}})
					return false
				}
				if gotA != refA {
					st.mismatch(Violation{Kind: "result-depends-on-history", Version: v.Name, Steps: []Step{{Op: "parse", S: sB}, {Op: "parse", S: sA}}, Expected: refA, Observed: gotA, Detail: map[string]any{"workload": "siblings", "note": "the second object differs from the first in 2-3 metrics only"}})
					return false
				}
				return true
			}
			n := v.N()
			bad := 0
			A := B.Clone()
			for m1 := 0; m1 < n && bad < 3; m1++ {
				for v1 := range v.Metrics[m1].Values {
					if uint8(v1) != B[m1] {
						A[m1] = uint8(v1)
						if !one(A) {
							bad++
						}
						nSingles++
					}
				}
				A[m1] = B[m1]
			}
			for m1 := 0; m1 < n && bad < 3; m1++ {
				for m2 := m1 + 1; m2 < n && bad < 3; m2++ {
					for v1 := range v.Metrics[m1].Values {
						if uint8(v1) == B[m1] {
							continue
						}
						for v2 := range v.Metrics[m2].Values {
							if uint8(v2) == B[m2] {
								continue
							}
							A[m1], A[m2] = uint8(v1), uint8(v2)
							if !one(A) {
								bad++
							}
							nPairs++
							if b < tripleBackgrounds {
								for m3 := m2 + 1; m3 < n; m3++ {
									for v3 := range v.Metrics[m3].Values {
										if uint8(v3) == B[m3] {
											continue
										}
										A[m3] = uint8(v3)
										if !one(A) {
											bad++
										}
										nTriples++
									}
									A[m3] = B[m3]
								}
							}
						}
					}
					A[m1], A[m2] = B[m1], B[m2]
				}
			}
		}
	}
	st.res.Counters["sibling_pairs"] = nPairs
	st.res.Counters["sibling_singles"] = nSingles
	st.res.Counters["sibling_triples"] = nTriples
}

// c14Hammer: maximum call rate on very few objects. Each phase releases G goroutines that do nothing but call ONE
// method on the same 4 objects of one version in a tight loop and compare the result with the value obtained
// quiescently beforehand -- no locks, no allocation, no bookkeeping of the harness in the loop, so that windows of a
// few nanoseconds between individually atomic steps of a shared memo (lost update, ABA, check-then-act) are hit.
func c14Hammer(st *c14State, shared [][]probe.Obj, G, procs, iters int, tag string) {
	prev := runtime.GOMAXPROCS(procs)
	defer runtime.GOMAXPROCS(prev)
	r := gen.New(st.seed, "C14", "hammer", tag)
	for vi, api := range probe.APIs {
		if len(shared[vi]) < 4 {
			continue
		}
		// 4 objects with pairwise different vectors
		var objs []probe.Obj
		seen := map[string]bool{}
		for tries := 0; tries < 64 && len(objs) < 4; tries++ {
			o := shared[vi][r.Intn(len(shared[vi]))]
			vec, _ := probe.SafeVector(o)
			if !seen[vec] {
				seen[vec] = true
				objs = append(objs, o)
			}
		}
		if len(objs) < 2 {
			continue
		}
		nScores := len(api.ScoreNames)
		nOps := nScores + 2 // + Vector, Parse
		for op := 0; op < nOps; op++ {
			runtime.GC()
			wantF := make([]float64, len(objs))
			wantS := make([]string, len(objs))
			srcs := make([]string, len(objs))
			for i, o := range objs {
				vec, _ := probe.SafeVector(o)
				srcs[i] = strings.Clone(vec)
				switch {
				case op < nScores:
					wantF[i], _ = probe.SafeScore(o, op)
				case op == nScores:
					wantS[i] = strings.Clone(vec)
				default:
					if po, err, _ := api.SafeParse(srcs[i]); err == nil && po != nil {
						wantS[i] = po.Bytes()
					}
				}
			}
			opName := "Parse"
			if op < nScores {
				opName = api.ScoreNames[op]
			} else if op == nScores {
				opName = "Vector"
			}
			var wg sync.WaitGroup
			var bad atomic.Int64
			start := make(chan struct{})
			for g := 0; g < G; g++ {
				wg.Add(1)
				go func(g int) {
					defer wg.Done()
					<-start
					for it := 0; it < iters; it++ {
						i := (it + g) % len(objs)
						o := objs[i]
						ok := true
						var obs string
						switch {
						case op < nScores:
							f, p := probe.SafeScore(o, op)
							if p != nil || f != wantF[i] {
								ok, obs = false, fmt.Sprint(f, p)
							}
						case op == nScores:
							s, p := probe.SafeVector(o)
							if p != nil || s != wantS[i] {
								ok, obs = false, fmt.Sprint(s, p)
							}
						default:
							po, err, p := api.SafeParse(srcs[i])
							if p != nil || err != nil || po == nil || po.Bytes() != wantS[i] {
								ok, obs = false, fmt.Sprint(po, err, p)
							}
						}
						if !ok {
							if bad.Add(1) <= 3 {
								exp := wantS[i]
								if op < nScores {
									exp = fstr(wantF[i])
								}
								st.mismatch(Violation{Kind: "result-depends-on-concurrency-or-history", Version: api.Ver.Name, Steps: append(parseSteps(srcs[i]), Step{Op: "score"}), Expected: opName + " = " + exp, Observed: obs,
									Detail: map[string]any{"workload": "hammer", "method": opName, "goroutines": G, "gomaxprocs": procs, "note": "needs real parallelism: the replay re-executes the call alone"}})
							}
							return
						}
					}
				}(g)
			}
			close(start)
			wg.Wait()
			st.events.Add(int64(G) * int64(iters))
			st.res.Counters["hammer_calls"] += int64(G) * int64(iters)
			st.res.Counters["hammer_phases"]++
		}
	}
}

// hammerOp is one (version, method) pair prepared for tight-loop calling: call(i) performs the method on the i-th hot
// object and reports a mismatch with the quiescent value.
type hammerOp struct {
	name string
	ver  int
	n    int
	call func(i int) (ok bool, exp, obs, src string)
}

func mkHammerOps(r *gen.Rand, shared [][]probe.Obj) []hammerOp {
	var out []hammerOp
	for vi, api := range probe.APIs {
		api := api
		if len(shared[vi]) < 4 {
			continue
		}
		var objs []probe.Obj
		seen := map[string]bool{}
		for tries := 0; tries < 64 && len(objs) < 4; tries++ {
			o := shared[vi][r.Intn(len(shared[vi]))]
			vec, _ := probe.SafeVector(o)
			if !seen[vec] {
				seen[vec] = true
				objs = append(objs, o)
			}
		}
		if len(objs) < 2 {
			continue
		}
		srcs := make([]string, len(objs))
		for i, o := range objs {
			vec, _ := probe.SafeVector(o)
			srcs[i] = strings.Clone(vec)
		}
		// an input that is rejected (the library's error paths run concurrently with everything else, too)
		badSrc := srcs[0] + "/" + api.Ver.Metrics[0].Abv + ":" + api.Ver.Metrics[0].Values[0]
		_, badErr, _ := api.SafeParse(badSrc)
		badWant := api.Classify(badErr)
		for op := range api.ScoreNames {
			op := op
			want := make([]float64, len(objs))
			for i, o := range objs {
				want[i], _ = probe.SafeScore(o, op)
			}
			out = append(out, hammerOp{api.ScoreNames[op], vi, len(objs), func(i int) (bool, string, string, string) {
				f, p := probe.SafeScore(objs[i], op)
				if p != nil || f != want[i] {
					return false, fstr(want[i]), fmt.Sprint(f, p), srcs[i]
				}
				return true, "", "", ""
			}})
		}
		out = append(out, hammerOp{"Vector", vi, len(objs), func(i int) (bool, string, string, string) {
			s, p := probe.SafeVector(objs[i])
			if p != nil || s != srcs[i] {
				return false, srcs[i], fmt.Sprint(s, p), srcs[i]
			}
			return true, "", "", ""
		}})
		wantB := make([]string, len(objs))
		for i := range objs {
			if po, err, _ := api.SafeParse(srcs[i]); err == nil && po != nil {
				wantB[i] = po.Bytes()
			}
		}
		out = append(out, hammerOp{"ParseVector", vi, len(objs), func(i int) (bool, string, string, string) {
			po, err, p := api.SafeParse(srcs[i])
			if p != nil || err != nil || po == nil || po.Bytes() != wantB[i] {
				return false, wantB[i], fmt.Sprint(po, err, p), srcs[i]
			}
			return true, "", "", ""
		}})
		out = append(out, hammerOp{"ParseVector(rejected)", vi, 1, func(i int) (bool, string, string, string) {
			po, err, p := api.SafeParse(badSrc)
			if p != nil || err == nil || po != nil || api.Classify(err) != badWant {
				return false, badWant.String(), fmt.Sprint(po, err, p), badSrc
			}
			return true, "", "", ""
		}})
		manySrc := srcs[0] + strings.Repeat("/"+api.Ver.Metrics[0].Abv+":"+api.Ver.Metrics[0].Values[0], 40)
		_, manyErr, _ := api.SafeParse(manySrc)
		manyWant := api.Classify(manyErr)
		out = append(out, hammerOp{"ParseVector(rejected, 40 extra parts)", vi, 1, func(i int) (bool, string, string, string) {
			po, err, p := api.SafeParse(manySrc)
			if p != nil || err == nil || po != nil || api.Classify(err) != manyWant {
				return false, manyWant.String(), fmt.Sprint(po, err, p), manySrc
			}
			return true, "", "", ""
		}})
		out = append(out, hammerOp{"Set+Get on a private copy", vi, len(objs), func(i int) (bool, string, string, string) {
			c := objs[i].Clone()
			me := api.Ver.Metrics[i%api.Ver.N()]
			val := me.Values[len(me.Values)-1]
			err, p := probe.SafeSet(c, me.Abv, val)
			g, _, _ := probe.SafeGet(c, me.Abv)
			if p != nil || err != nil || g != val {
				return false, me.Abv + "=" + val, fmt.Sprint(g, err, p), srcs[i]
			}
			return true, "", "", ""
		}})
	}
	return out
}

// c14HammerPairs: like the hammer phases, but half of the goroutines call method A while the other half call a
// DIFFERENT method B (possibly of another CVSS version): state shared between two methods or two packages is only
// contended when both run at the same moment. Every ordered pair is too many; each repetition draws a seeded set of
// pairs, biased towards same-version pairs and towards pairs that contain ParseVector or Vector.
func c14HammerPairs(st *c14State, shared [][]probe.Obj, G, procs, iters, npairs int, tag string) {
	prev := runtime.GOMAXPROCS(procs)
	defer runtime.GOMAXPROCS(prev)
	r := gen.New(st.seed, "C14", "hammer-pairs", tag)
	ops := mkHammerOps(r, shared)
	if len(ops) < 2 {
		return
	}
	for k := 0; k < npairs; k++ {
		a := ops[r.Intn(len(ops))]
		b := ops[r.Intn(len(ops))]
		for tries := 0; tries < 8 && (a.name == b.name && a.ver == b.ver || (r.Intn(3) != 0 && a.ver != b.ver)); tries++ {
			b = ops[r.Intn(len(ops))]
		}
		var wg sync.WaitGroup
		var bad atomic.Int64
		start := make(chan struct{})
		for g := 0; g < G; g++ {
			wg.Add(1)
			go func(g int) {
				defer wg.Done()
				op := a
				if g&1 == 1 {
					op = b
				}
				<-start
				for it := 0; it < iters; it++ {
					if ok, exp, obs, src := op.call((it + g) % op.n); !ok {
						if bad.Add(1) <= 3 {
							st.mismatch(Violation{Kind: "result-depends-on-concurrency-or-history", Version: spec.Versions[op.ver].Name, Steps: append(parseSteps(src), Step{Op: "score"}), Expected: op.name + " = " + exp, Observed: obs,
								Detail: map[string]any{"workload": "hammer-pairs", "method": op.name, "concurrent_with": fmt.Sprintf("%s (v%s)", map[bool]hammerOp{true: a, false: b}[g&1 == 1].name, spec.Versions[map[bool]hammerOp{true: a, false: b}[g&1 == 1].ver].Name), "goroutines": G, "gomaxprocs": procs, "note": "needs real parallelism: the replay re-executes the call alone"}})
						}
						return
					}
				}
			}(g)
		}
		close(start)
		wg.Wait()
		st.events.Add(int64(G) * int64(iters))
		st.res.Counters["hammer_pair_calls"] += int64(G) * int64(iters)
		st.res.Counters["hammer_pair_phases"]++
		st.mu.Lock()
		key := fmt.Sprintf("v%s %s || v%s %s", spec.Versions[a.ver].Name, a.name, spec.Versions[b.ver].Name, b.name)
		st.keysBy["pair:"+key] |= 3
		st.mu.Unlock()
	}
}

// C14Sig prints the signature of one ParseVector call made as the FIRST call of a fresh process.
func C14Sig(ver int, hexInput string) {
	if hexInput == "-" {
		raw, _ := io.ReadAll(os.Stdin)
		hexInput = strings.TrimSpace(string(raw))
	}
	b, err := hex.DecodeString(hexInput)
	if err != nil {
		Broken("C14sig: %v", err)
	}
	fmt.Print("C14SIG " + sigParse(probe.APIs[ver], string(b)))
}

// c14FreshProcess re-computes every baseline in its own freshly started process
// (no earlier call at all) and compares it with the in-process baseline.
func c14FreshProcess(st *c14State, inputs []c14Input) {
	sem := make(chan struct{}, 16)
	var wg sync.WaitGroup
	for i := range inputs {
		wg.Add(1)
		sem <- struct{}{}
		go func(in *c14Input) {
			defer wg.Done()
			defer func() { <-sem }()
			cmd := exec.Command(os.Args[0], "C14sig", fmt.Sprint(in.ver), "-")
			cmd.Stdin = strings.NewReader(hex.EncodeToString([]byte(in.s))) // not argv: inputs may exceed the kernel's per-argument limit
			out, err := cmd.Output()
			got := string(out)
			if err != nil || !strings.HasPrefix(got, "C14SIG ") {
				st.mismatch(Violation{Kind: "process-died-in-fresh-process-call", Version: spec.Versions[in.ver].Name, Steps: parseSteps(in.s), Expected: in.base, Observed: fmt.Sprint(err, " ", got)})
				return
			}
			if got[7:] != in.base {
				st.mismatch(Violation{Kind: "result-depends-on-history", Version: spec.Versions[in.ver].Name, Steps: parseSteps(in.s), Expected: "as the first call of a fresh process: " + got[7:], Observed: in.base})
			}
			st.events.Add(1)
		}(&inputs[i])
	}
	wg.Wait()
	st.res.Counters["fresh_process_baselines"] = int64(len(inputs))
}

type coldObs struct {
	Accepted bool      `json:"a"`
	Vec      string    `json:"v"`
	Scores   []float64 `json:"s"`
	Nomen    string    `json:"n"`
	Panicked string    `json:"p,omitempty"`
}
type coldRound struct {
	Ver int       `json:"ver"`
	S   string    `json:"s"`
	A   []byte    `json:"a"`
	Obs []coldObs `json:"obs"`
}

// judgeCold compares the observations of one cold-start process with the spec oracles.
func judgeCold(c *Ctx, build string, rounds []coldRound) {
	for round, it := range rounds {
		api := probe.APIs[it.Ver]
		v := api.Ver
		a := spec.Assign(it.A)
		for _, o := range it.Obs {
			bad := ""
			switch {
			case o.Panicked != "":
				bad = "panic: " + o.Panicked
			case !o.Accepted:
				bad = "well-formed vector rejected"
			case o.Vec != v.Canonical(a):
				bad = "Vector() = " + o.Vec
			}
			if bad == "" {
				switch it.Ver {
				case spec.V40:
					want := spec.V4Score(spec.V4Effective(a))
					if o.Scores[0] != float64(want.K)/10 {
						bad = fmt.Sprintf("Score = %v, specification %.1f", o.Scores[0], float64(want.K)/10)
					}
					if n := nomenclatureOracle(v, a); o.Nomen != n {
						bad = "Nomenclature = " + o.Nomen + ", specification " + n
					}
				case spec.V30, spec.V31:
					want := spec.V3(it.Ver).Score(a)
					for i, set := range []spec.Tenths{want.Base, want.Temporal, want.Env} {
						if k, exact := tenth(o.Scores[i]); !exact || !set.Has(k) {
							bad = fmt.Sprintf("%s = %v, not in the specification's set", api.ScoreNames[i], o.Scores[i])
						}
					}
				case spec.V20:
					want := spec.V2().Score(a)
					for i, set := range []spec.KSet{want.Base, want.Temporal, want.Env} {
						if k, exact := tenth(o.Scores[i]); !exact || !set.Has(k) {
							bad = fmt.Sprintf("%s = %v, not in the specification's set", api.ScoreNames[i], o.Scores[i])
						}
					}
				}
			}
			if bad != "" {
				c.Violate(Violation{Kind: "wrong-result-under-concurrent-first-use", Version: v.Name, Steps: append(parseSteps(it.S), Step{Op: "score"}), Expected: "the specification's result for " + v.Canonical(a), Observed: bad,
					Detail: map[string]any{"build": build, "round": round, "observations_in_round": len(it.Obs), "workload": "cold concurrent start (no earlier go-cvss call in the process)"}})
			}
		}
		if len(it.Obs) > 1 {
			c.Violate(Violation{Kind: "goroutines-disagree-under-concurrent-first-use", Version: v.Name, Steps: append(parseSteps(it.S), Step{Op: "score"}), Expected: "one result", Observed: fmt.Sprint(it.Obs), Detail: map[string]any{"build": build}})
		}
	}
}

// C14Cold is the "cold concurrent start" workload: NOTHING of go-cvss has run in
// this process yet. Objects are obtained by parsing (round 0 of each string is
// itself a simultaneous first call), then in lock-step rounds ALL goroutines call
// the same scoring method on their own copy of the same object at the same
// time, so that any lazily initialised table, memo or cache is first used
// concurrently. Results are judged against the spec oracles (which do not share
// state with the library), so a poisoned cache that stays wrong is still seen.
func C14Cold(mode, tier string, seed int64, idx int) {
	res := &c14Result{Mode: mode + "-cold", Counters: map[string]int64{}}
	st := &c14State{res: res, seed: seed, keysBy: map[string]uint64{}, ctx: NewDistinct(1 << 20)}
	r := gen.New(seed, "C14", "cold", fmt.Sprint(idx))
	type item struct {
		ver int
		a   spec.Assign
		s   string
	}
	var items []item
	// v4: one or two vectors per MacroVector region (random classes), realised in random ways
	v4 := spec.Versions[spec.V40]
	for i := 0; i < 400; i++ {
		e := spec.V4ClassFromIndex(r.Intn(spec.V4ClassCount))
		a := v4Realise(r, e, r.Intn(3))
		items = append(items, item{spec.V40, a, v4.Canonical(a)})
	}
	for _, vid := range []int{spec.V20, spec.V30, spec.V31} {
		v := spec.Versions[vid]
		for i := 0; i < 150; i++ {
			a := gen.MixedAssign(r, v)
			sp, _ := gen.RandomSpelling(r, v, a)
			items = append(items, item{vid, a, sp})
		}
	}
	// shuffle so that versions interleave
	for i := len(items) - 1; i > 0; i-- {
		j := r.Intn(i + 1)
		items[i], items[j] = items[j], items[i]
	}
	G := 8 + 8*(idx%3) // 8, 16, 24 goroutines
	runtime.GOMAXPROCS(16)
	type obs struct {
		accepted bool
		vec      string
		scores   [5]float64
		nomen    string
		panicked string
	}
	out := make([][]obs, G)
	for g := range out {
		out[g] = make([]obs, len(items))
	}
	var start, done sync.WaitGroup
	for round := range items {
		it := items[round]
		api := probe.APIs[it.ver]
		start.Add(1)
		done.Add(G)
		for g := 0; g < G; g++ {
			go func(g int) {
				defer done.Done()
				start.Wait()
				o := &out[g][round]
				obj, err, p := api.SafeParse(it.s)
				if p != nil {
					o.panicked = p.Val
					return
				}
				if err != nil || obj == nil {
					return
				}
				o.accepted = true
				for i := range api.ScoreNames {
					f, p := probe.SafeScore(obj, i)
					if p != nil {
						o.panicked = p.Val
					}
					o.scores[i] = f
				}
				o.vec, _ = probe.SafeVector(obj)
				if api.Nomencl != nil {
					o.nomen, _ = api.SafeNomencl(obj)
				}
				// Rating of every rating-capable version (in round 0 these are the first Rating calls of the process, made by
				// all goroutines at once) and Get of every metric: judged here, the oracles are trivial
				for _, x := range [...]float64{o.scores[0], 0.5, 5.4, 8.0, 9.5, 0, 10, -0.1} {
					want, wok := ratingOracle(x)
					for _, vid := range [...]int{spec.V30, spec.V31, spec.V40} {
						got, rerr, rp := probe.APIs[vid].SafeRating(x)
						if rp != nil || (rerr == nil) != wok || got != want {
							st.mismatch(Violation{Kind: "wrong-result-under-concurrent-first-use", Version: spec.Versions[vid].Name, Steps: []Step{{Op: "rating", F: fstr(x)}}, Expected: fmt.Sprint(want, " ok=", wok), Observed: fmt.Sprint(got, rerr, rp), Detail: map[string]any{"workload": "cold", "round": round}})
						}
					}
				}
				for m, me := range api.Ver.Metrics {
					if gs, gerr, gp := probe.SafeGet(obj, me.Abv); gp != nil || gerr != nil || gs != me.Values[it.a[m]] {
						st.mismatch(Violation{Kind: "wrong-result-under-concurrent-first-use", Version: api.Ver.Name, Steps: append(parseSteps(it.s), Step{Op: "get", S: me.Abv}), Expected: me.Values[it.a[m]], Observed: fmt.Sprint(gs, gerr, gp), Detail: map[string]any{"workload": "cold", "round": round}})
					}
				}
			}(g)
		}
		start.Done() // release all goroutines of this round together
		done.Wait()
		st.events.Add(int64(G))
	}
	// report the DISTINCT observations per round; the orchestrator judges them against
	// the spec oracles (building the exact models here, under -race, would dominate the run)
	var rounds []coldRound
	for round, it := range items {
		cr := coldRound{Ver: it.ver, S: it.s, A: []byte(it.a)}
		seen := map[string]bool{}
		for g := 0; g < G; g++ {
			o := out[g][round]
			co := coldObs{Accepted: o.accepted, Vec: o.vec, Scores: o.scores[:], Nomen: o.nomen, Panicked: o.panicked}
			k := fmt.Sprint(co)
			if !seen[k] {
				seen[k] = true
				cr.Obs = append(cr.Obs, co)
			}
		}
		rounds = append(rounds, cr)
	}
	rb, _ := json.Marshal(rounds)
	fmt.Println("C14COLD " + string(rb))
	res.Events = st.events.Load()
	res.Configs = []string{fmt.Sprintf("cold start: %d goroutines released together on each of %d first-use rounds", G, len(items))}
	b, _ := json.Marshal(res)
	fmt.Println("C14RESULT " + string(b))
}

// C14Ages is the "elapsed time" workload (plain build): one process that computes the baselines, then
// goes idle and wakes at growing process ages (so that both the age and the idle gap before each wake grow:
// 0.5 s ... 31.5 s idle in quick, ... 10 min idle in thorough) and, at every wake, makes every call of the alphabet once, in a
// rotated order (so that a different entry point is the first call after the idle period each time),
// re-reads everything observable of the objects parsed at the start, and does a Get/Set round on clones of them.
// Time is a stimulus only: the verdict is equality with the baseline. It runs in the shadow of the other builds.
func C14Ages(tier string, seed int64) {
	start := time.Now()
	res := &c14Result{Mode: "ages", Counters: map[string]int64{}}
	st := &c14State{res: res, seed: seed, keysBy: map[string]uint64{}, ctx: NewDistinct(1 << 16)}
	inputs, shared := c14Baseline(st, seed)
	type sh struct {
		o   probe.Obj
		sig string
		ver int
		vec string
	}
	var objs []sh
	for vi := range shared {
		for _, o := range shared[vi] {
			v, _ := probe.SafeVector(o)
			objs = append(objs, sh{o, sigObj(probe.APIs[vi], o), vi, strings.Clone(v)})
		}
	}
	wakes := []float64{0.5, 1.5, 3.5, 7.5, 15.5, 47}
	if tier == "thorough" {
		wakes = append(wakes, 110, 300, 910)
	}
	if s := os.Getenv("VERIF_C14_AGES"); s != "" { // testing aid: comma-separated ages in seconds
		wakes = nil
		for _, f := range strings.Split(s, ",") {
			x, _ := strconv.ParseFloat(f, 64)
			wakes = append(wakes, x)
		}
	}
	last := time.Since(start)
	for k, w := range wakes {
		if d := time.Duration(w*float64(time.Second)) - time.Since(start); d > 0 {
			time.Sleep(d)
		}
		age := time.Since(start)
		det := map[string]any{"workload": "ages", "process_age_s": age.Seconds(), "idle_before_s": (age - last).Seconds(), "note": "depends on elapsed time: re-running the replay immediately may not reproduce it"}
		n := len(inputs)
		for j := 0; j < n; j++ {
			in := &inputs[(j+k*17+int(seed))%n]
			got := sigParse(probe.APIs[in.ver], in.s)
			if got != in.base {
				st.mismatch(Violation{Kind: "result-depends-on-elapsed-time", Version: spec.Versions[in.ver].Name, Steps: parseSteps(in.s), Expected: in.base, Observed: got, Detail: det})
			}
			st.events.Add(1)
		}
		for j := range objs {
			o := &objs[(j+k*5)%len(objs)]
			api := probe.APIs[o.ver]
			if got := sigObj(api, o.o); got != o.sig {
				st.mismatch(Violation{Kind: "result-depends-on-elapsed-time", Version: api.Ver.Name, Steps: append(parseSteps(o.vec), Step{Op: "vector"}, Step{Op: "score"}), Expected: o.sig, Observed: got, Detail: det})
			}
			cl := o.o.Clone()
			for _, me := range api.Ver.Metrics {
				g, _, _ := probe.SafeGet(cl, me.Abv)
				if err, p := probe.SafeSet(cl, me.Abv, g); err != nil || p != nil {
					st.mismatch(Violation{Kind: "result-depends-on-elapsed-time", Version: api.Ver.Name, Steps: append(parseSteps(o.vec), Step{Op: "vector"}, Step{Op: "score"}), Expected: "Set(" + me.Abv + "," + g + ") of the value just read succeeds", Observed: fmt.Sprint(err, p), Detail: det})
				}
			}
			if got := sigObj(api, cl); got != o.sig {
				st.mismatch(Violation{Kind: "result-depends-on-elapsed-time", Version: api.Ver.Name, Steps: append(parseSteps(o.vec), Step{Op: "vector"}, Step{Op: "score"}), Expected: "after re-setting every metric to its own value: " + o.sig, Observed: got, Detail: det})
			}
			st.events.Add(2)
		}
		res.Configs = append(res.Configs, fmt.Sprintf("woke at process age %.1fs after %.1fs idle", age.Seconds(), (age-last).Seconds()))
		last = time.Since(start)
	}
	res.Events = st.events.Load()
	res.Counters["wakes"] = int64(len(wakes))
	b, _ := json.Marshal(res)
	fmt.Println("C14RESULT " + string(b))
}

// C14Child is the workload process: mode = plain | race | race-instr | asan.
func C14Child(mode, tier string, seed int64) {
	res := &c14Result{Mode: mode, Counters: map[string]int64{}}
	st := &c14State{res: res, seed: seed, keysBy: map[string]uint64{}, ctx: NewDistinct(4_000_000)}
	quick := tier != "thorough"
	inputs, shared := c14Baseline(st, seed)
	res.Counters["inputs"] = int64(len(inputs))
	for i := 0; i < len(inputs); i += len(inputs)/12 + 1 {
		res.SampleInputs = append(res.SampleInputs, fmt.Sprintf("v%s %q -> %.90s", spec.Versions[inputs[i].ver].Name, inputs[i].s, inputs[i].base))
	}
	if mode == "plain" {
		c14FreshProcess(st, inputs)
		// plus, each as the very first call of its own process: every optional metric as the SOLE optional metric of a
		// vector, with each of its defined values (process-wide "has anything of this kind been seen yet" state)
		var sole []c14Input
		for vi, api := range probe.APIs {
			v := api.Ver
			for m, me := range v.Metrics {
				if me.Mandatory {
					continue
				}
				for val := 1; val < len(me.Values); val++ {
					a := v.ZeroAssign()
					a[m] = uint8(val)
					s := v.Canonical(a)
					sig := sigParse(api, s)
					if !strings.Contains(sig, " vec="+s+" ") {
						st.mismatch(Violation{Kind: "baseline-disagrees-with-canonical-form", Version: v.Name, Steps: parseSteps(s), Expected: s, Observed: sig})
						continue
					}
					sole = append(sole, c14Input{ver: vi, s: s, base: sig})
				}
			}
		}
		n0 := res.Counters["fresh_process_baselines"]
		c14FreshProcess(st, sole)
		res.Counters["fresh_process_baselines"] += n0
	}
	scale := 1
	switch mode {
	case "race":
		scale = 8
	case "race-instr":
		scale = 20
	case "asan":
		scale = 4
	}
	reps := 5
	if !quick {
		reps = 50
	}
	if mode == "plain" || mode == "asan" {
		n := 3000
		if !quick {
			n = 60000
		}
		c14History(st, inputs, n/scale, true, true)
	} else {
		// under the race detector a single goroutine has nothing to race with: keep the
		// sequential histories short there (complete pairs only without the yield pass)
		c14History(st, inputs, 200/scale+10, mode == "race", false)
	}
	if mode != "race-instr" {
		c14Aliased(st, inputs)
	}
	c14Poison(st, inputs)
	if mode == "plain" || mode == "asan" {
		c14Purity(st)
	}
	if mode == "plain" || mode == "asan" {
		c14Periods(st)
		if quick {
			c14Siblings(st, 3, 1)
		} else {
			c14Siblings(st, 12, 3)
		}
	}
	for rep := 0; rep < reps; rep++ {
		{
			iters := 100000 / scale / scale
			if mode == "asan" {
				iters = 20000
			}
			if iters < 250 {
				iters = 250
			}
			pc := [][2]int{{16, 16}, {8, 4}, {4, 2}, {32, 16}, {3, 3}}[rep%5]
			c14Hammer(st, shared, pc[0], pc[1], iters, fmt.Sprintf("%s-rep%d", mode, rep))
			c14HammerPairs(st, shared, pc[0], pc[1], iters/2+100, 24, fmt.Sprintf("%s-rep%d", mode, rep))
			// crowd phases: far more goroutines in flight than any small fixed pool of slots, buffers or shards has entries
			// (256 and 1,024 callers of one method on 16 Ps); a bounded shared resource runs into its exhaustion path
			if mode == "race-instr" {
				// the yield pass makes every call slow: crowds are left to the plain, race and asan builds
			} else if rep%2 == 0 {
				c14Hammer(st, shared, 256, 16, iters/64+20, fmt.Sprintf("%s-crowd256-rep%d", mode, rep))
			} else {
				c14Hammer(st, shared, 1024, 16, iters/256+10, fmt.Sprintf("%s-crowd1024-rep%d", mode, rep))
			}
		}
		for _, cfg := range [][2]int{{4, 2}, {16, 16}, {64, 16}, {16, 2}, {8, 1}} {
			ops := 24000 / scale / cfg[0] * 4
			if !quick {
				ops *= 2
			}
			if ops < 20 {
				ops = 20
			}
			c14Stress(st, inputs, shared, cfg[0], cfg[1], ops, fmt.Sprintf("%s-rep%d", mode, rep))
		}
		// "few keys, many threads": the same workload over only 2-4 hot inputs (and the shared objects parsed
		// from them), so that state keyed on "the last input" / "a repeated input" is contended
		{
			hr := gen.New(seed, "C14", "hot", mode, fmt.Sprint(rep))
			nh := 2 + hr.Intn(3)
			var hot []c14Input
			hotShared := make([][]probe.Obj, spec.NVersions)
			ver := hr.Intn(spec.NVersions)
			for len(hot) < nh {
				in := inputs[hr.Intn(len(inputs))]
				if in.ver != ver && hr.Intn(4) != 0 { // mostly one version, sometimes mixed
					continue
				}
				hot = append(hot, in)
				if o, err, _ := probe.APIs[in.ver].SafeParse(in.s); err == nil && o != nil {
					hotShared[in.ver] = append(hotShared[in.ver], o)
				}
			}
			any := false
			for _, l := range hotShared {
				any = any || len(l) > 0
			}
			if any {
				ops := 24000 / scale / 16 * 4
				if !quick {
					ops *= 2
				}
				if ops < 20 {
					ops = 20
				}
				c14Stress(st, hot, hotShared, 16, 16, ops, fmt.Sprintf("%s-hot%d", mode, rep))
			}
		}
	}
	if mode == "plain" {
		// last, because it leaves every 32-bit call counter of the library past its wrap
		c14CounterWraps(st, inputs, quick)
	}
	res.Events = st.events.Load()
	res.Keys = len(st.keysBy)
	for _, m := range st.keysBy {
		if m&(m-1) != 0 {
			res.KeysMulti++
		}
	}
	res.ContextPairs = st.ctx.Count()
	res.StringsRecheck = st.rechk.Load()
	expvar.Do(func(kv expvar.KeyValue) {
		if strings.HasPrefix(kv.Key, "verifYield_") {
			n, _ := strconv.ParseInt(kv.Value.String(), 10, 64)
			res.Yields += n
		}
	})
	// collapse the per-rep config list
	if len(res.Configs) > 8 {
		res.Configs = append(res.Configs[:8], fmt.Sprintf("... %d configurations in total", len(res.Configs)))
	}
	b, _ := json.Marshal(res)
	fmt.Println("C14RESULT " + string(b))
}

var raceHdr = regexp.MustCompile(`^WARNING: DATA RACE`)
var frameRe = regexp.MustCompile(`^\s+(\S+)\(`)

// parseRaceLogs counts report blocks in GORACE log files and de-duplicates
// them by the pair of first frames of the two accesses.
func parseRaceLogs(glob string) (raw int, dedup map[string]int, inCvss int, sample string) {
	dedup = map[string]int{}
	files, _ := filepath.Glob(glob)
	for _, f := range files {
		fh, err := os.Open(f)
		if err != nil {
			continue
		}
		sc := bufio.NewScanner(fh)
		sc.Buffer(make([]byte, 1<<20), 1<<20)
		var block []string
		flush := func() {
			if len(block) == 0 {
				return
			}
			raw++
			var firsts []string
			want := false
			cvss := false
			for _, l := range block {
				if strings.Contains(l, "pandatix/go-cvss") || strings.Contains(l, "gocvss") {
					cvss = true
				}
				t := strings.TrimSpace(l)
				if strings.HasPrefix(t, "Write at") || strings.HasPrefix(t, "Read at") || strings.HasPrefix(t, "Previous write at") || strings.HasPrefix(t, "Previous read at") {
					want = true
					continue
				}
				if want {
					if m := frameRe.FindStringSubmatch(l); m != nil {
						firsts = append(firsts, m[1])
						want = false
					}
				}
			}
			sort.Strings(firsts)
			key := strings.Join(firsts, " <-> ")
			dedup[key]++
			if cvss {
				inCvss++
			}
			if sample == "" {
				sample = strings.Join(block, "\n")
			}
			block = nil
		}
		for sc.Scan() {
			l := sc.Text()
			if raceHdr.MatchString(l) {
				flush()
				block = []string{l}
				continue
			}
			if len(block) > 0 {
				block = append(block, l)
				if strings.HasPrefix(l, "==================") && len(block) > 2 {
					flush()
				}
			}
		}
		flush()
		fh.Close()
	}
	return
}

// CheckC14 orchestrates the four builds. Paths of the pre-built binaries come from run.sh.
func CheckC14(c *Ctx) {
	type build struct{ mode, env string }
	builds := []build{{"plain", "VERIF_BIN_PLAIN"}, {"race", "VERIF_BIN_RACE"}, {"race-instr", "VERIF_BIN_RACE_INSTR"}}
	if !c.Quick {
		builds = append(builds, build{"asan", "VERIF_BIN_ASAN"})
	}
	logDir := filepath.Join(c.Root, "replays", "C14.logs")
	os.RemoveAll(logDir)
	os.MkdirAll(logDir, 0o755)
	var totalEvents int64
	var distinct int64
	summary := map[string]any{}
	// the elapsed-time workload runs in the shadow of everything else
	var agesOut []byte
	var agesErr error
	agesDone := make(chan struct{})
	go func() {
		defer close(agesDone)
		bin := os.Getenv("VERIF_BIN_PLAIN")
		if bin == "" {
			return
		}
		cmd := exec.Command(bin, "C14ages", c.Tier, fmt.Sprint(c.Seed))
		ef, _ := os.Create(filepath.Join(logDir, "ages.stderr"))
		cmd.Stderr = ef
		agesOut, agesErr = cmd.Output()
		ef.Close()
	}()
	for _, b := range builds {
		bin := os.Getenv(b.env)
		if bin == "" {
			Broken("C14: %s not set (run through run.sh)", b.env)
		}
		// cold concurrent starts: several short-lived processes per build
		ncold := c.Pick(4, 24)
		var coldEvents, coldProcs int64
		for k := 0; k < ncold; k++ {
			cc := exec.Command(bin, "C14cold", c.Tier, fmt.Sprint(c.Seed), b.mode, fmt.Sprint(k))
			cc.Env = append(os.Environ(),
				"GORACE=halt_on_error=0 log_path="+filepath.Join(logDir, b.mode+".race"),
				"VERIF_YIELD_SEED="+fmt.Sprint(c.Seed+int64(k)),
				"ASAN_OPTIONS=halt_on_error=1:abort_on_error=0:log_path="+filepath.Join(logDir, b.mode+".asan"))
			cef, _ := os.Create(filepath.Join(logDir, fmt.Sprintf("%s.cold%d.stderr", b.mode, k)))
			cc.Stderr = cef
			cout, cerr := cc.Output()
			cef.Close()
			var cres c14Result
			ok := false
			var rounds []coldRound
			for _, l := range strings.Split(string(cout), "\n") {
				if strings.HasPrefix(l, "C14RESULT ") && json.Unmarshal([]byte(l[10:]), &cres) == nil {
					ok = true
				}
				if strings.HasPrefix(l, "C14COLD ") {
					json.Unmarshal([]byte(l[8:]), &rounds)
				}
			}
			if ok && len(rounds) == 0 {
				ok = false
			}
			judgeCold(c, b.mode, rounds)
			if !ok {
				eb, _ := os.ReadFile(filepath.Join(logDir, fmt.Sprintf("%s.cold%d.stderr", b.mode, k)))
				tail := string(eb)
				if len(tail) > 2000 {
					tail = tail[len(tail)-2000:]
				}
				c.Violate(Violation{Kind: "process-died-under-workload", Expected: "the " + b.mode + " build survives a cold concurrent start", Observed: fmt.Sprintf("exit: %v; stderr tail: %s", cerr, tail), Detail: map[string]any{"build": b.mode, "workload": "cold"}})
				continue
			}
			for _, m := range cres.Mismatches {
				if m.Detail == nil {
					m.Detail = map[string]any{}
				}
				m.Detail["build"] = b.mode
				c.Violate(m)
			}
			coldEvents += cres.Events
			coldProcs++
		}
		cmd := exec.Command(bin, "C14child", c.Tier, fmt.Sprint(c.Seed), b.mode)
		cmd.Env = append(os.Environ(),
			"GORACE=halt_on_error=0 log_path="+filepath.Join(logDir, b.mode+".race"),
			"VERIF_YIELD_SEED="+fmt.Sprint(c.Seed),
			"ASAN_OPTIONS=halt_on_error=1:abort_on_error=0:log_path="+filepath.Join(logDir, b.mode+".asan"))
		errFile := filepath.Join(logDir, b.mode+".stderr")
		ef, _ := os.Create(errFile)
		cmd.Stderr = ef
		t0 := time.Now()
		// generous wall-clock watchdog: expiry is inconclusive, never a verdict
		timeout := 40 * time.Minute
		if !c.Quick {
			timeout = 3 * time.Hour
		}
		done := make(chan struct{})
		var out []byte
		var err error
		go func() { out, err = cmd.Output(); close(done) }()
		select {
		case <-done:
		case <-time.After(timeout):
			cmd.Process.Signal(os.Interrupt)
			cmd.Process.Kill()
			<-done
			c.Inconclusive = append(c.Inconclusive, fmt.Sprintf("%s child exceeded the %v watchdog", b.mode, timeout))
			ef.Close()
			continue
		}
		ef.Close()
		var res c14Result
		found := false
		for _, l := range strings.Split(string(out), "\n") {
			if strings.HasPrefix(l, "C14RESULT ") {
				if json.Unmarshal([]byte(l[10:]), &res) == nil {
					found = true
				}
			}
		}
		raw, dedup, inCvss, sample := parseRaceLogs(filepath.Join(logDir, b.mode+".race*"))
		if !found {
			// the child died: fatal error (concurrent map access, checkptr, ASan report, stack overflow ...)
			eb, _ := os.ReadFile(errFile)
			tail := string(eb)
			if len(tail) > 3000 {
				tail = tail[len(tail)-3000:]
			}
			asan, _ := filepath.Glob(filepath.Join(logDir, b.mode+".asan*"))
			c.Violate(Violation{Kind: "process-died-under-workload", Expected: "the " + b.mode + " build survives the concurrent workload", Observed: fmt.Sprintf("exit: %v; stderr tail: %s; asan logs: %v", err, tail, asan), Detail: map[string]any{"build": b.mode}})
			continue
		}
		for _, m := range res.Mismatches {
			if m.Detail == nil {
				m.Detail = map[string]any{}
			}
			m.Detail["build"] = b.mode
			c.Violate(m)
		}
		if res.NMismatch > int64(len(res.Mismatches)) {
			c.Counts["mismatches-not-listed:"+b.mode] = res.NMismatch - int64(len(res.Mismatches))
		}
		if raw > 0 {
			if inCvss == 0 {
				Broken("C14: %d race report(s) in the %s build, none of them touching go-cvss frames: harness race\n%s", raw, b.mode, sample)
			}
			keys := []string{}
			for k, n := range dedup {
				keys = append(keys, fmt.Sprintf("%s (x%d)", k, n))
			}
			sort.Strings(keys)
			c.Violate(Violation{Kind: "data-race", Expected: "0 race reports from the race detector (" + b.mode + " build)", Observed: fmt.Sprintf("%d report blocks, %d after de-duplication: %s", raw, len(dedup), strings.Join(keys, "; ")),
				Detail: map[string]any{"build": b.mode, "first_report": sample, "logs": filepath.Join(logDir, b.mode+".race*")}})
		}
		totalEvents += res.Events + coldEvents
		distinct += res.ContextPairs
		summary[b.mode] = map[string]any{"events": res.Events, "distinct_keys": res.Keys, "keys_seen_by_2plus_goroutines": res.KeysMulti, "distinct_(previous,current)_context_pairs": res.ContextPairs,
			"yields_taken": res.Yields, "sibling_singles": res.Counters["sibling_singles"], "aliased_input_calls": res.Counters["aliased_input_calls"], "period_probe_calls": res.Counters["period_probe_calls"], "poisoned_errors": res.Counters["poisoned_errors"], "purity_objects": res.Counters["purity_objects"], "counter_wrap_calls": res.Counters["counter_wrap_calls"], "poisoned_error_fields": res.Counters["poisoned_fields"], "sibling_pairs": res.Counters["sibling_pairs"], "sibling_triples": res.Counters["sibling_triples"], "hammer_calls": res.Counters["hammer_calls"], "hammer_phases": res.Counters["hammer_phases"], "hammer_pair_calls": res.Counters["hammer_pair_calls"], "hammer_pair_phases": res.Counters["hammer_pair_phases"], "strings_reverified": res.StringsRecheck, "sequences": res.Sequences, "pool_reuse_sequences_v2": res.PoolReuse, "race_report_blocks": raw, "race_reports_deduplicated": len(dedup),
			"configurations": res.Configs, "wall_s": time.Since(t0).Seconds(), "inputs": res.Counters["inputs"], "fresh_process_baselines": res.Counters["fresh_process_baselines"],
			"cold_start_processes": coldProcs, "cold_start_first_use_calls": coldEvents}
		if b.mode == "race-instr" {
			c.Floor("yields taken in the instrumented build", res.Yields, 1000)
		}
		c.Floor("events in "+b.mode+" build", res.Events, 10000)
		c.Floor("keys observed from >= 2 goroutines in "+b.mode+" build", int64(res.KeysMulti), 20)
		if len(c.Samples) < 12 {
			c.Samples = append(c.Samples, map[string]any{"build": b.mode, "events": res.Events, "configurations": res.Configs, "some_inputs_with_baseline": res.SampleInputs})
		}
	}
	<-agesDone
	{
		var res c14Result
		found := false
		for _, l := range strings.Split(string(agesOut), "\n") {
			if strings.HasPrefix(l, "C14RESULT ") && json.Unmarshal([]byte(l[10:]), &res) == nil {
				found = true
			}
		}
		if !found {
			eb, _ := os.ReadFile(filepath.Join(logDir, "ages.stderr"))
			tail := string(eb)
			if len(tail) > 3000 {
				tail = tail[len(tail)-3000:]
			}
			c.Violate(Violation{Kind: "process-died-under-workload", Expected: "the plain build survives the elapsed-time workload", Observed: fmt.Sprintf("exit: %v; stderr tail: %s", agesErr, tail), Detail: map[string]any{"build": "plain", "workload": "ages"}})
		} else {
			for _, m := range res.Mismatches {
				if m.Detail == nil {
					m.Detail = map[string]any{}
				}
				m.Detail["build"] = "plain"
				c.Violate(m)
			}
			totalEvents += res.Events
			summary["elapsed-time (plain)"] = map[string]any{"events": res.Events, "wakes": res.Configs}
			c.Floor("wakes of the elapsed-time workload", res.Counters["wakes"], 6)
		}
	}
	c.Evals = totalEvents
	c.Extra["builds"] = summary
	if s := os.Getenv("VERIF_INSTR_POINTS"); s != "" {
		c.Extra["yield_points_inserted"] = s
	}
	c.SetReport(Report{
		Rule:        "four builds of the CURRENT tree (plain; -race; -race after the AST yield-point pass that inserts seeded Gosched/sleep calls at loop heads and after call statements of go-cvss; -asan in thorough). In each: (1) baselines of ~40 inputs per version computed after forced double GC in forward and reverse order (must agree with each other, with the grammar/canonical-form oracles and -- plain build -- with the same call made as the first call of a fresh process; likewise every optional metric as the sole optional metric of a vector, each value, each in its own fresh process); (2) sequential histories hostile to pooled scratch buffers under GOMAXPROCS(1)+GC off: ALL ordered pairs per version, all triples for v2 (1/7 for others), random sequences of 2-50 calls across versions -- every result must equal its baseline; (3) goroutines {4,8,16,64} x GOMAXPROCS {1,2,16} hammering the small shared input set, plus a hot-keys phase per repetition over only 2-4 inputs (parse, everything observable of shared read-only objects, Set on local copies, parse-mutate-parse, Rating) with results compared to baselines; (0) cold concurrent starts: short-lived processes in which NO go-cvss call has happened yet release 8-24 goroutines together, round by round, on the same parse + score + Vector + Nomenclature + Get of every metric + Rating (all three rating-capable versions) calls (550 first-use rounds each), judged against the spec oracles; (3b) hammer phases: G goroutines calling ONE method on the same 4 objects in a tight loop with nothing of the harness in between (one phase per scoring method, Vector and ParseVector, per version and repetition; G x GOMAXPROCS in {16x16, 8x4, 4x2, 32x16, 3x3}, plus crowd phases with 256 and 1,024 goroutines on 16 Ps), each result compared with the quiescent value; pair phases: half of the goroutines call method A, the other half a different method B (scores, Vector, ParseVector of valid and of rejected input, Set+Get on a private copy; same or another CVSS version), 24 seeded pairs per repetition; (2b) sibling histories (plain, asan): for 3 (thorough 12) background objects per version EVERY object differing from it in exactly one or exactly two metrics (one background, thorough 3: also exactly three), in the histories unrelated,A / A,B / B,A -- results must equal the reference after the unrelated call; (2d) period probes (plain, asan): a vector with every optional metric defined, d-1 calls on a base-only vector, the first vector again, for d in {255,256,257,65535,65536,65537} on one P with GC off -- every result must equal its reference (generation counters that wrap); (2g) 32-bit call counters (plain, last): 16 goroutines make 2^31 + 4,096 ParseVector calls per version (thorough: 2^32, and also Get, Score, Vector, Nomenclature, Rating), each checked, then the whole alphabet is re-checked; (2f) purity (plain, asan): every packed-corner and literal-guided object is parsed, cloned, observed through every read-only method and must still be == its clone and give the same observations again; (2e) poisoned errors: every rejected input is parsed, the exported fields of the returned error are overwritten by the caller (reflection) and the input is parsed again, likewise Get/Set on unknown abbreviations -- the second result must equal the baseline; (2c) aliased inputs (all builds but the yield pass): all ordered pairs per version with both inputs written into ONE reused buffer and passed as views of it, and as fresh heap copies dropped at once with a GC every 8 calls -- results must equal the baselines; (4) every Vector() string kept next to an immediate clone and re-compared later, forced GC every 10k events; (5) elapsed time: one plain-build process goes idle and wakes at process ages 0.5/1.5/3.5/7.5/15.5/47 s (thorough: also 110/300/910 s), each time making every alphabet call in a rotated order, re-reading the objects parsed at the start and re-setting every metric of clones to its own value -- all must equal the baselines (time is the stimulus, equality the verdict). Race reports are counted from the GORACE log (never from the exit code) and de-duplicated by first-frame pair. evaluations = events; distinct = distinct (previous call, current call) context pairs summed over builds",
		DistinctN:   distinct,
		Assumptions: []string{"the race detector sees only executed pairs of accesses; interleavings are explored, not enumerated", "dependence on elapsed time is observed only up to the idle gaps lived through (31.5 s quick, 10 min thorough); dependence on the environment (variables, files, clock date) is not driven", "in the plain build every baseline is also recomputed as the first call of a freshly started process; the sanitizer builds rely on the double-GC baseline"},
	})
	c.Finish()
}
