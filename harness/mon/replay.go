package mon

import (
	"encoding/json"
	"fmt"
	"os"
	"strconv"

	"verifharness/probe"
	"verifharness/spec"
)

// Replay re-executes the recorded steps of a violation file against the
// current tree and prints what it observes next to the recorded expectation.
func Replay(path string) {
	b, err := os.ReadFile(path)
	if err != nil {
		Broken("replay: %v", err)
	}
	var v Violation
	if err := json.Unmarshal(b, &v); err != nil {
		Broken("replay: %v", err)
	}
	fmt.Printf("property %s  kind %s  version %s  (seed %d, tier %s)\n", v.Property, v.Kind, v.Version, v.Seed, v.Tier)
	fmt.Printf("recorded expected: %s\nrecorded observed: %s\n", v.Expected, v.Observed)
	vers := []*probe.API{}
	for _, a := range probe.APIs {
		if v.Version == "" || a.Ver.Name == v.Version {
			vers = append(vers, a)
		}
	}
	for _, api := range vers {
		fmt.Printf("--- replaying against v%s\n", api.Ver.Name)
		var o probe.Obj
		for _, st := range v.Steps {
			switch st.Op {
			case "parse":
				no, err, p := api.SafeParse(st.S)
				fmt.Printf("ParseVector(%q) -> obj=%v err=%v panic=%v\n", st.S, desc(no), err, p)
				if no != nil {
					o = no
				}
			case "new":
				o = api.New()
				fmt.Println("zero value ->", desc(o))
			case "clone":
				if o != nil {
					o = o.Clone()
				}
			case "set":
				if o != nil {
					err, p := probe.SafeSet(o, st.S, st.Val)
					fmt.Printf("Set(%q,%q) -> err=%v panic=%v obj=%v\n", st.S, st.Val, err, p, desc(o))
				}
			case "get":
				if o != nil {
					g, err, p := probe.SafeGet(o, st.S)
					fmt.Printf("Get(%q) -> %q err=%v panic=%v\n", st.S, g, err, p)
				}
			case "vector":
				if o != nil {
					s, p := probe.SafeVector(o)
					fmt.Printf("Vector() -> %q panic=%v\n", s, p)
				}
			case "score":
				if o != nil {
					for i, n := range api.ScoreNames {
						f, p := probe.SafeScore(o, i)
						fmt.Printf("%s() -> %v panic=%v\n", n, f, p)
					}
				}
			case "nomenclature":
				if o != nil && api.Nomencl != nil {
					s, p := api.SafeNomencl(o)
					fmt.Printf("Nomenclature() -> %q panic=%v\n", s, p)
				}
			case "rating":
				if api.Rating != nil {
					f, _ := strconv.ParseFloat(st.F, 64)
					s, err, p := api.SafeRating(f)
					fmt.Printf("Rating(%s) -> %q err=%v panic=%v\n", st.F, s, err, p)
				}
			}
		}
	}
	_ = spec.V20
}

func desc(o probe.Obj) string {
	if o == nil {
		return "<nil>"
	}
	s, p := probe.SafeVector(o)
	if p != nil {
		return o.Bytes() + " (Vector panics)"
	}
	return o.Bytes() + " " + s
}
