// Package mon holds the monitors (one per property) and their shared runtime:
// sharded deterministic execution, counters, samples, violation / replay
// records, evidence files, known findings, stall watchdog.
package mon

import (
	"encoding/json"
	"fmt"
	"os"
	"path/filepath"
	"runtime"
	"sort"
	"strings"
	"sync"
	"sync/atomic"
	"time"

	"verifharness/gen"
)

// Exit codes of the verif binary.
const (
	ExitHeld         = 0
	ExitViolation    = 1
	ExitInconclusive = 3
	ExitBroken       = 4
)

// Step is one API call of a recorded case (replayable).
type Step struct {
	Op  string `json:"op"`            // parse | new | set | get | vector | score | rating | nomenclature | clone
	S   string `json:"s,omitempty"`   // parse: input; set/get: abbreviation
	Val string `json:"val,omitempty"` // set: value
	F   string `json:"f,omitempty"`   // rating: float (strconv 'g' -1) ; score: method name
}

// Violation is one refuting observation.
type Violation struct {
	Property string         `json:"property"`
	Kind     string         `json:"kind"`
	Version  string         `json:"version,omitempty"`
	Steps    []Step         `json:"steps,omitempty"`
	Expected string         `json:"expected"`
	Observed string         `json:"observed"`
	Detail   map[string]any `json:"detail,omitempty"`
	Seed     int64          `json:"seed"`
	Tier     string         `json:"tier"`
	Known    string         `json:"known_finding,omitempty"`
}

// KnownFinding is an entry of /verif/known_findings.json.
type KnownFinding struct {
	Property string            `json:"property"`
	Status   string            `json:"status"` // known | fixed
	Commit   string            `json:"commit,omitempty"`
	ID       string            `json:"id"`
	Match    map[string]string `json:"match,omitempty"`
	Text     string            `json:"text"`
}

// Worker is the per-goroutine state.
type Worker struct {
	ID     int
	R      *gen.Rand
	Pre    []string // strings parsed just before the current case as part of one history-dependent family (replay)
	counts map[string]int64
	evals  int64
	// stall watchdog
	progress atomic.Uint64
	inCall   atomic.Bool
	CurOp    string // written by the worker before a call; read by the watchdog only after a long stall
	CurS     string
	samples  []any
	nsample  int64
	Acc      [64]int64 // cheap numeric accumulators, summed into Ctx.Acc after each Parallel
}

func (w *Worker) Count(key string)           { w.counts[key]++ }
func (w *Worker) CountN(key string, n int64) { w.counts[key] += n }
func (w *Worker) Eval()                      { w.evals++; w.progress.Add(1) }
func (w *Worker) EvalN(n int64)              { w.evals += n; w.progress.Add(1) }

// Enter/Leave bracket a call into go-cvss for the stall watchdog.
func (w *Worker) Enter(op, s string) { w.CurOp, w.CurS = op, s; w.inCall.Store(true) }
func (w *Worker) Leave()             { w.inCall.Store(false); w.progress.Add(1) }

// Sample keeps up to 4 samples per worker per label (reservoir of the first few + sparse later ones).
func (w *Worker) Sample(s any) {
	w.nsample++
	if len(w.samples) < 3 {
		w.samples = append(w.samples, s)
	} else if w.nsample&(w.nsample-1) == 0 { // powers of two: spread over the run
		w.samples[int(w.nsample>>3)%3] = s
	}
}

// Ctx is one run of one check.
type Ctx struct {
	ID      string
	Tier    string
	Seed    int64
	Quick   bool
	NW      int
	Root    string // /verif
	Start   time.Time
	mu      sync.Mutex
	viols   []Violation
	nviol   int64
	nknown  map[string]int64
	known   []KnownFinding
	Counts  map[string]int64
	Evals   int64
	Samples []any
	Extra   map[string]any
	workers []*Worker
	// coverage floors that were not reached -> inconclusive
	Inconclusive []string
	Distinct     *Distinct
	stallLimit   int
	Acc          [64]int64
	nviolA       atomic.Int64 // lock-free copy of nviol: workloads stop early once a run is clearly violated
}

func NewCtx(id, tier string, seed int64, root string) *Ctx {
	c := &Ctx{ID: id, Tier: tier, Seed: seed, Quick: tier != "thorough", Root: root, Start: time.Now(),
		Counts: map[string]int64{}, Extra: map[string]any{}, nknown: map[string]int64{}, Distinct: NewDistinct(6_000_000), stallLimit: 120}
	c.NW = runtime.GOMAXPROCS(0)
	if c.NW > 16 {
		c.NW = 16
	}
	if s := os.Getenv("VERIF_WORKERS"); s != "" {
		fmt.Sscanf(s, "%d", &c.NW)
	}
	b, err := os.ReadFile(filepath.Join(root, "known_findings.json"))
	if err == nil {
		var all []KnownFinding
		if err := json.Unmarshal(b, &all); err != nil {
			fmt.Fprintln(os.Stderr, "BROKEN: known_findings.json:", err)
			os.Exit(ExitBroken)
		}
		for _, k := range all {
			if k.Property == id && k.Status == "known" {
				c.known = append(c.known, k)
			}
		}
	}
	os.RemoveAll(filepath.Join(root, "replays", id))
	return c
}

// Rand derives a generator for a labelled stream.
func (c *Ctx) Rand(labels ...string) *gen.Rand {
	return gen.New(c.Seed, append([]string{c.ID}, labels...)...)
}

// Pick returns q in quick tier, t in thorough.
func (c *Ctx) Pick(q, t int) int {
	if c.Quick {
		return q
	}
	return t
}

// Parallel runs f(w, i) for i in [0,n) over NW workers in contiguous chunks
// (deterministic partition: the set of cases never depends on scheduling).
// label seeds each worker's generator; chunking is by index so results do not
// depend on NW only through which Rand stream a case sees -- streams are
// derived per chunk, not per worker, to keep case lists independent of NW.
func (c *Ctx) Parallel(label string, n int, chunk int, f func(w *Worker, i int)) {
	if chunk <= 0 {
		chunk = 1
	}
	nchunks := (n + chunk - 1) / chunk
	var next atomic.Int64
	var wg sync.WaitGroup
	ws := make([]*Worker, c.NW)
	done := make(chan struct{})
	for k := range ws {
		ws[k] = &Worker{ID: k, counts: map[string]int64{}}
	}
	go c.watchdog(label, ws, done)
	for k := range ws {
		wg.Add(1)
		go func(w *Worker) {
			defer wg.Done()
			defer func() {
				if r := recover(); r != nil {
					buf := make([]byte, 1<<14)
					buf = buf[:runtime.Stack(buf, false)]
					fmt.Fprintf(os.Stderr, "BROKEN: harness panic in %s/%s: %v\n%s\n", c.ID, label, r, buf)
					os.Exit(ExitBroken)
				}
			}()
			for {
				ci := int(next.Add(1)) - 1
				if ci >= nchunks || c.nviolA.Load() > 2000 {
					return // all chunks done, or the run is already violated thousands of times over
				}
				w.R = c.Rand(label, fmt.Sprint(ci))
				lo, hi := ci*chunk, (ci+1)*chunk
				if hi > n {
					hi = n
				}
				for i := lo; i < hi; i++ {
					f(w, i)
				}
			}
		}(ws[k])
	}
	wg.Wait()
	close(done)
	c.mu.Lock()
	for _, w := range ws {
		for k, v := range w.counts {
			c.Counts[k] += v
		}
		c.Evals += w.evals
		for i, x := range w.Acc {
			c.Acc[i] += x
		}
	}
	// at most 3 samples per workload, so that every workload of a check shows up in the evidence
	taken := 0
	for _, w := range ws {
		for _, s := range w.samples {
			if taken < 3 && len(c.Samples) < 40 {
				c.Samples = append(c.Samples, s)
				taken++
			}
		}
	}
	c.mu.Unlock()
}

// watchdog: a worker that is inside a go-cvss call and makes no progress for
// stallLimit consecutive ticks of THIS goroutine is stuck in that call. Ticks
// are counted, not wall time measured: if the whole process is frozen the
// watchdog does not tick either. A normal call takes < 10 microseconds.
func (c *Ctx) watchdog(label string, ws []*Worker, done chan struct{}) {
	last := make([]uint64, len(ws))
	stall := make([]int, len(ws))
	t := time.NewTicker(time.Second)
	defer t.Stop()
	for {
		select {
		case <-done:
			return
		case <-t.C:
		}
		for i, w := range ws {
			p := w.progress.Load()
			if p == last[i] && w.inCall.Load() {
				stall[i]++
			} else {
				stall[i] = 0
			}
			last[i] = p
			if stall[i] >= c.stallLimit {
				v := Violation{Property: c.ID, Kind: "call-did-not-return", Expected: "every exported function returns",
					Observed: fmt.Sprintf("no return after %d watchdog ticks (normal: microseconds) in workload %s", stall[i], label),
					Detail:   map[string]any{"call": w.CurOp, "input": w.CurS}}
				c.Violate(v)
				c.Finish() // exits
			}
		}
	}
}

func (c *Ctx) matchKnown(v *Violation) *KnownFinding {
	for i := range c.known {
		k := &c.known[i]
		ok := true
		for key, want := range k.Match {
			var got string
			switch key {
			case "kind":
				got = v.Kind
			case "version":
				got = v.Version
			default:
				if v.Detail != nil {
					got = fmt.Sprint(v.Detail[key])
				}
			}
			if got != want {
				ok = false
				break
			}
		}
		if ok {
			return k
		}
	}
	return nil
}

// Violate records a refuting observation (thread safe). The first 50 are kept in full and written as replay files.
func (c *Ctx) Violate(v Violation) {
	v.Property, v.Seed, v.Tier = c.ID, c.Seed, c.Tier
	c.mu.Lock()
	defer c.mu.Unlock()
	if k := c.matchKnown(&v); k != nil {
		c.nknown[k.ID]++
		return
	}
	c.nviol++
	c.nviolA.Add(1)
	if len(c.viols) < 50 {
		c.viols = append(c.viols, v)
	}
}

func (c *Ctx) NViol() int64 {
	c.mu.Lock()
	defer c.mu.Unlock()
	return c.nviol
}

// Floor declares a coverage floor: if got < want the run is inconclusive.
func (c *Ctx) Floor(what string, got, want int64) {
	if got < want {
		c.Inconclusive = append(c.Inconclusive, fmt.Sprintf("%s: observed %d, floor %d", what, got, want))
	}
}

// Evidence is the evidence file layout (EVIDENCE.schema.json).
type Evidence struct {
	PropertyID  string           `json:"property_id"`
	Tier        string           `json:"tier"`
	Seed        int64            `json:"seed"`
	Level       string           `json:"level"`
	Coverage    map[string]any   `json:"coverage"`
	Assumptions []string         `json:"assumptions"`
	WallS       float64          `json:"wall_s"`
	Violations  int64            `json:"violations"`
	Verdict     string           `json:"verdict"`
	Known       map[string]int64 `json:"known_findings_observed,omitempty"`
}

// Report is filled by each check before Finish.
type Report struct {
	Rule        string
	Exhaustive  bool
	DistinctN   int64 // measured count of distinct non-trivial cases
	Assumptions []string
}

var report Report

func (c *Ctx) SetReport(r Report) { report = r }

// Finish writes evidence + replays, prints the verdict and exits.
func (c *Ctx) Finish() {
	c.mu.Lock()
	defer c.mu.Unlock()
	if report.Assumptions == nil {
		report.Assumptions = []string{}
	}
	if report.Rule == "" {
		report.Rule = "run ended before the workload completed (violation or watchdog); see verdict"
	}
	wall := time.Since(c.Start).Seconds()
	verdict := "held"
	code := ExitHeld
	if c.nviol > 0 {
		verdict, code = "violated", ExitViolation
	} else if len(c.Inconclusive) > 0 {
		verdict, code = "inconclusive", ExitInconclusive
	}
	cov := map[string]any{}
	for k, v := range c.Extra {
		cov[k] = v
	}
	cov["evaluations"] = c.Evals
	dn := report.DistinctN
	if dn == 0 {
		dn = c.Distinct.Count()
	}
	cov["distinct_nontrivial"] = dn
	cov["rule"] = report.Rule
	cov["exhaustive"] = report.Exhaustive
	if len(c.Samples) == 0 {
		c.Samples = append(c.Samples, "no sample recorded")
	}
	cov["samples"] = c.Samples
	keys := make([]string, 0, len(c.Counts))
	for k := range c.Counts {
		keys = append(keys, k)
	}
	sort.Strings(keys)
	cm := map[string]int64{}
	for _, k := range keys {
		cm[k] = c.Counts[k]
	}
	cov["counters"] = cm
	if len(c.Inconclusive) > 0 {
		cov["inconclusive_because"] = c.Inconclusive
	}
	if c.nviol == 0 && (c.Evals < 1 || dn < 2) {
		verdict, code = "inconclusive", ExitInconclusive
		cov["inconclusive_because"] = append(c.Inconclusive, "nothing observed")
	}
	ev := Evidence{PropertyID: c.ID, Tier: c.Tier, Seed: c.Seed, Level: "exploration", Coverage: cov,
		Assumptions: report.Assumptions, WallS: wall, Violations: c.nviol, Verdict: verdict, Known: c.nknown}
	evDir := filepath.Join(c.Root, "evidence")
	if d := os.Getenv("VERIF_EVIDENCE_DIR"); d != "" {
		evDir = d // runs against a scratch copy of the repository must not overwrite the evidence of /repo
	}
	os.MkdirAll(evDir, 0o755)
	b, _ := json.MarshalIndent(ev, "", " ")
	if err := os.WriteFile(filepath.Join(evDir, c.ID+".json"), append(b, '\n'), 0o644); err != nil {
		fmt.Fprintln(os.Stderr, "BROKEN: cannot write evidence:", err)
		os.Exit(ExitBroken)
	}
	for _, k := range c.known {
		if n := c.nknown[k.ID]; n > 0 {
			fmt.Printf("KNOWN-FINDING: property=%s %s [%s; observed %d times this run]\n", c.ID, k.Text, k.ID, n)
		}
	}
	if c.nviol > 0 {
		dir := filepath.Join(c.Root, "replays", c.ID)
		os.MkdirAll(dir, 0o755)
		for i, v := range c.viols {
			p := filepath.Join(dir, fmt.Sprintf("%03d-%s.json", i, sanitize(v.Kind)))
			b, _ := json.MarshalIndent(v, "", " ")
			os.WriteFile(p, append(b, '\n'), 0o644)
			if i < 10 {
				fmt.Printf("VIOLATION property=%s replay=%s\n", c.ID, p)
				fmt.Printf("  kind=%s version=%s expected=%s observed=%s\n", v.Kind, v.Version, trunc(v.Expected), trunc(v.Observed))
			}
		}
		fmt.Printf("%s %s: %d violation(s) in %d evaluations (%.1fs)\n", c.ID, c.Tier, c.nviol, c.Evals, wall)
	} else {
		fmt.Printf("%s %s: %s on %d evaluations, %d distinct non-trivial cases (%.1fs)\n", c.ID, c.Tier, verdict, c.Evals, dn, wall)
		for _, s := range c.Inconclusive {
			fmt.Println("  INCONCLUSIVE:", s)
		}
	}
	os.Exit(code)
}

func sanitize(s string) string {
	return strings.Map(func(r rune) rune {
		if r >= 'a' && r <= 'z' || r >= 'A' && r <= 'Z' || r >= '0' && r <= '9' || r == '-' {
			return r
		}
		return '_'
	}, s)
}

func trunc(s string) string {
	if len(s) > 300 {
		return s[:300] + "..."
	}
	return s
}

// Broken aborts the run as a broken check (never a verdict).
func Broken(format string, args ...any) {
	fmt.Fprintf(os.Stderr, "BROKEN: "+format+"\n", args...)
	os.Exit(ExitBroken)
}

// ---- distinct counter --------------------------------------------------------

// Distinct counts distinct 64-bit case hashes exactly up to a cap, after which
// it stops inserting (the count is then a lower bound).
type Distinct struct {
	sh  [64]distinctShard
	cap int64
	n   atomic.Int64
}
type distinctShard struct {
	mu sync.Mutex
	m  map[uint64]struct{}
}

func NewDistinct(cap int64) *Distinct {
	d := &Distinct{cap: cap}
	for i := range d.sh {
		d.sh[i].m = map[uint64]struct{}{}
	}
	return d
}

func (d *Distinct) Add(h uint64) {
	if d.n.Load() >= d.cap {
		return
	}
	s := &d.sh[h>>58]
	s.mu.Lock()
	if _, ok := s.m[h]; !ok {
		s.m[h] = struct{}{}
		d.n.Add(1)
	}
	s.mu.Unlock()
}
func (d *Distinct) Count() int64 { return d.n.Load() }
func (d *Distinct) Capped() bool { return d.n.Load() >= d.cap }

// HashString is FNV-1a 64.
func HashString(s string) uint64 {
	h := uint64(14695981039346656037)
	for i := 0; i < len(s); i++ {
		h ^= uint64(s[i])
		h *= 1099511628211
	}
	return h
}

func HashBytes(ver int, b []uint8) uint64 {
	h := uint64(14695981039346656037) ^ uint64(ver)*0x9e3779b97f4a7c15
	for _, x := range b {
		h ^= uint64(x)
		h *= 1099511628211
	}
	return h
}
