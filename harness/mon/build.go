package mon

import (
	"fmt"

	"verifharness/gen"
	"verifharness/probe"
	"verifharness/spec"
)

// History styles for realising an assignment on a real object (DESIGN 1.2).
const (
	HParseCanonical = iota // H1
	HParseSpelled          // H2 non canonical spelling
	HSetInOrder            // H3 zero value + Set in spec order
	HSetHostile            // H4 random order, decoys, failing Sets interleaved
	HCloneThenSet          // H5 clone of another object, then Sets
	NStyles
)

var StyleNames = [...]string{"parse-canonical", "parse-spelled", "set-in-order", "set-hostile", "clone-then-set"}

// junk abbreviations / values used for interleaved failing Sets.
var junkAbv = []string{"", "av", "XX", "AV ", " AV", "MSX", "E:", "CVSS", "Av", "aV", "AVV", "A V", "\x00", "MAVV", "U:", "RE "}
var junkVal = []string{"", "x", "n", "XX", " N", "N ", "ND", "Clear ", "clear", "RED", "H/L", "N:N", "\x00", "Z"}

// Build realises assignment a on a real go-cvss object, only through the
// public API, in history style st. If rec != nil the calls are recorded.
// fail != "" means the public API refused a legal step.
func Build(api *probe.API, a spec.Assign, st int, r *gen.Rand, rec *[]Step) (o probe.Obj, fail string) {
	v := api.Ver
	add := func(s Step) {
		if rec != nil {
			*rec = append(*rec, s)
		}
	}
	parse := func(s string) (probe.Obj, string) {
		add(Step{Op: "parse", S: s})
		o, err, p := api.SafeParse(s)
		if p != nil {
			return nil, "ParseVector panicked on " + s + ": " + p.Val
		}
		if err != nil || o == nil {
			return nil, fmt.Sprintf("ParseVector(%q) = (%v, %v) for a well-formed vector", s, o, err)
		}
		return o, ""
	}
	set := func(o probe.Obj, m int, vi uint8) string {
		abv, val := v.Metrics[m].Abv, v.Metrics[m].Values[vi]
		add(Step{Op: "set", S: abv, Val: val})
		err, p := probe.SafeSet(o, abv, val)
		if p != nil {
			return fmt.Sprintf("Set(%q,%q) panicked: %s", abv, val, p.Val)
		}
		if err != nil {
			return fmt.Sprintf("Set(%q,%q) = %v for a legal value", abv, val, err)
		}
		return ""
	}
	switch st {
	case HParseCanonical:
		return parse(v.Canonical(a))
	case HParseSpelled:
		s, _ := gen.RandomSpelling(r, v, a)
		return parse(s)
	case HSetInOrder:
		add(Step{Op: "new"})
		o = api.New()
		for m := range v.Metrics {
			if f := set(o, m, a[m]); f != "" {
				return nil, f
			}
		}
		return o, ""
	case HSetHostile:
		add(Step{Op: "new"})
		o = api.New()
		for _, m := range r.Perm(v.N()) {
			if r.Chance(1, 2) { // decoy value first
				if f := set(o, m, uint8(r.Intn(len(v.Metrics[m].Values)))); f != "" {
					return nil, f
				}
			}
			if r.Chance(1, 4) { // failing Set: unknown abbreviation or illegal value; result judged by C07/C09, ignored here
				if r.Bool() {
					ab := r.Pick(junkAbv)
					add(Step{Op: "set", S: ab, Val: "N"})
					probe.SafeSet(o, ab, "N")
				} else {
					jv := r.Pick(junkVal)
					if v.ValueIndex(m, jv) < 0 {
						add(Step{Op: "set", S: v.Metrics[m].Abv, Val: jv})
						probe.SafeSet(o, v.Metrics[m].Abv, jv)
					}
				}
			}
			if f := set(o, m, a[m]); f != "" {
				return nil, f
			}
		}
		return o, ""
	default: // HCloneThenSet
		other := gen.RandomAssign(r, v)
		src, f := parse(v.Canonical(other))
		if f != "" {
			return nil, f
		}
		add(Step{Op: "clone"})
		o = src.Clone()
		for _, m := range r.Perm(v.N()) {
			if f := set(o, m, a[m]); f != "" {
				return nil, f
			}
		}
		return o, ""
	}
}

// BuildRecorded re-runs Build from a copy of the generator state to obtain the step list of a case.
func BuildRecorded(api *probe.API, a spec.Assign, st int, r gen.Rand) []Step {
	var steps []Step
	Build(api, a, st, &r, &steps)
	return steps
}

// AssignString renders an assignment as its canonical vector (for messages).
func AssignString(v *spec.Version, a spec.Assign) string { return v.Canonical(a) }
