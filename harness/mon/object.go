package mon

import (
	"fmt"
	"strings"
	"sync/atomic"

	"verifharness/gen"
	"verifharness/probe"
	"verifharness/spec"
)

// readAll reads every metric through Get and maps the values to indexes.
// fail != "" when a Get errors, panics or returns a value outside the vocabulary.
func readAll(o probe.Obj, v *spec.Version) (a spec.Assign, fail string) {
	a = v.ZeroAssign()
	for m, me := range v.Metrics {
		g, err, p := probe.SafeGet(o, me.Abv)
		if p != nil {
			return nil, fmt.Sprintf("Get(%q) panicked: %s", me.Abv, p.Val)
		}
		if err != nil {
			return nil, fmt.Sprintf("Get(%q) error: %v", me.Abv, err)
		}
		vi := v.ValueIndex(m, g)
		if vi < 0 {
			return nil, fmt.Sprintf("Get(%q) = %q, not a value of the metric", me.Abv, g)
		}
		a[m] = uint8(vi)
	}
	return a, ""
}

func diffAssign(v *spec.Version, want, got spec.Assign) string {
	var sb strings.Builder
	for m, me := range v.Metrics {
		if want[m] != got[m] {
			fmt.Fprintf(&sb, "%s: want %s got %s; ", me.Abv, me.Values[want[m]], me.Values[got[m]])
		}
	}
	return sb.String()
}

// ---------------------------------------------------------------- C02

// roundTrip checks Vector -> ParseVector -> equality for object o whose intended assignment is a.
func roundTrip(c *Ctx, w *Worker, api *probe.API, o probe.Obj, steps func() []Step) {
	v := api.Ver
	w.Enter("Vector", "")
	s, p := probe.SafeVector(o)
	w.Leave()
	if p != nil {
		c.Violate(Violation{Kind: "vector-panic", Version: v.Name, Steps: append(steps(), Step{Op: "vector"}), Expected: "a string", Observed: "panic: " + p.Val})
		return
	}
	w.Enter("ParseVector v"+v.Name, s)
	q, err, pp := api.SafeParse(s)
	w.Leave()
	w.EvalN(2)
	st := func() []Step { return append(steps(), Step{Op: "vector"}, Step{Op: "parse", S: s}) }
	if pp != nil || err != nil || q == nil {
		c.Violate(Violation{Kind: "own-vector-rejected", Version: v.Name, Steps: st(), Expected: "ParseVector accepts Vector() output", Observed: fmt.Sprintf("Vector()=%q err=%v panic=%v", s, err, pp)})
		return
	}
	if !q.Equal(o) {
		c.Violate(Violation{Kind: "roundtrip-not-equal", Version: v.Name, Steps: st(), Expected: "parsed object == original " + o.Bytes(), Observed: q.Bytes() + " from " + s})
		return
	}
	for _, me := range v.Metrics {
		g1, e1, p1 := probe.SafeGet(o, me.Abv)
		g2, e2, p2 := probe.SafeGet(q, me.Abv)
		w.EvalN(2)
		if p1 != nil || p2 != nil || e1 != nil || e2 != nil || g1 != g2 {
			c.Violate(Violation{Kind: "roundtrip-get-differs", Version: v.Name, Steps: append(st(), Step{Op: "get", S: me.Abv}), Expected: fmt.Sprintf("Get(%q)=%q", me.Abv, g1), Observed: fmt.Sprintf("%q %v %v", g2, e2, p2)})
			return
		}
	}
	if len(s) > 0 {
		w.Count(fmt.Sprintf("veclen-v%s-%03d", v.Name, len(s)/20*20))
	}
}

func CheckC02(c *Ctx) {
	hit := func(w *Worker, v *spec.Version, a spec.Assign) {
		for m := range a {
			w.counts[cellKey(v, m, int(a[m]))]++
		}
	}
	objCase := func(w *Worker, api *probe.API, a spec.Assign, st int) {
		saved := *w.R
		o, fail := Build(api, a, st, w.R, nil)
		steps := func() []Step { return BuildRecorded(api, a, st, saved) }
		if fail != "" {
			c.Violate(Violation{Kind: "cannot-build-object", Version: api.Ver.Name, Steps: steps(), Expected: "public API realises " + api.Ver.Canonical(a), Observed: fail})
			return
		}
		w.Count("style:" + StyleNames[st])
		hit(w, api.Ver, a)
		roundTrip(c, w, api, o, steps)
		if w.nsample < 1<<16 {
			s, _ := probe.SafeVector(o)
			w.Sample(map[string]any{"version": api.Ver.Name, "object": o.Bytes(), "vector": s, "history": StyleNames[st]})
		}
	}
	// zero values
	for _, api := range probe.APIs {
		api := api
		c.Parallel("zero-"+api.Ver.Name, 1, 1, func(w *Worker, i int) {
			o := api.New()
			roundTrip(c, w, api, o, func() []Step { return []Step{{Op: "new"}} })
			c.Distinct.Add(HashString(api.Ver.Name + o.Bytes()))
		})
	}
	// covering sets, every history style
	for vi, api := range probe.APIs {
		var list []spec.Assign
		gen.Cover(c.Rand("cover", api.Ver.Name), api.Ver, true, func(a spec.Assign) { list = append(list, a) })
		api, vi := api, vi
		c.Parallel("cover-"+api.Ver.Name, len(list), 64, func(w *Worker, i int) {
			for st := 0; st < NStyles; st++ {
				objCase(w, api, list[i], st)
			}
			c.Distinct.Add(HashBytes(vi, list[i]))
		})
	}
	// every Modified metric written as an explicit copy of its base metric: all base vectors of v3.x, a seeded 1/8 of v4's
	for vi, api := range probe.APIs {
		api, vi := api, vi
		v := api.Ver
		if v.ID == spec.V20 {
			continue
		}
		total, nb := 1, 0
		for _, me := range v.Metrics {
			if me.Mandatory {
				nb++
				total *= len(me.Values)
			}
		}
		stride := 1
		if v.ID == spec.V40 {
			stride = c.Pick(8, 1)
		}
		off := c.Rand("explicit-copy", v.Name).Intn(stride)
		c.Parallel("explicit-copy-"+v.Name, (total-off+stride-1)/stride, 256, func(w *Worker, k int) {
			i := off + k*stride
			a := v.ZeroAssign()
			for m := 0; m < nb; m++ {
				n := len(v.Metrics[m].Values)
				a[m] = uint8(i % n)
				i /= n
			}
			explicitCopy(v, a)
			objCase(w, api, a, k%NStyles)
			c.Distinct.Add(HashBytes(vi, a) ^ 0x7777)
			w.Count("explicit-copy-objects")
		})
	}
	// corners of the packed representation (highest / lowest code in every field) and everything one or two metrics away
	for vi, api := range probe.APIs {
		api, vi := api, vi
		list := cornerAssigns(api)
		c.Extra["packed_corners_v"+api.Ver.Name] = cornerNote[api.Ver.ID]
		c.Parallel("packed-corners-"+api.Ver.Name, len(list), 64, func(w *Worker, i int) {
			for st := 0; st < NStyles; st++ {
				objCase(w, api, list[i], st)
			}
			c.Distinct.Add(HashBytes(vi, list[i]) ^ 0x5555)
			w.Count("packed-corner-objects")
		})
	}
	// pairs of objects whose packed bytes collide under a common 32-bit hash (collide.go), serialised back to back
	for _, api := range probe.APIs {
		api := api
		objCollisionPairs(c, api, func(w *Worker, a spec.Assign, i int) { objCase(w, api, a, i%NStyles) })
	}
	// COMPLETE: every assignment with at most 4 (thorough: 5) optional metrics defined x all their values
	for vi, api := range probe.APIs {
		api, vi := api, vi
		v := api.Ver
		subsets := gen.SparseSubsets(v, c.Pick(4, 5))
		c.Parallel("at-most-k-defined-"+v.Name, len(subsets), 1, func(w *Worker, i int) {
			base := gen.KSparseAssign(w.R, v, 0)
			n := 0
			gen.EnumSubsetValues(v, base, subsets[i], func(a spec.Assign) {
				objCase(w, api, a.Clone(), n%NStyles)
				n++
			})
			w.CountN("at-most-k-defined-objects", int64(n))
			c.Distinct.Add(HashBytes(vi, base) ^ uint64(i)<<32)
		})
	}
	// COMPLETE WALK (thorough; quick: a seeded fraction of the chunks): every configuration of the optional
	// metrics of v3.0 / v3.1 (221,184,000 each) and of v4.0's threat + environmental metrics (1,179,648,000;
	// supplemental seeded per chunk) in Gray-code order, one Set per step on one object, each configuration
	// serialised, parsed back and compared with ==
	for _, api := range probe.APIs {
		api := api
		v := api.Ver
		var opt []int
		for m, me := range v.Metrics {
			// v2.0 is small enough to walk ALL of its 14 metrics: 139,968,000 objects, complete in both tiers
			if v.ID == spec.V20 || (!me.Mandatory && me.Group != spec.GSupp) {
				opt = append(opt, m)
			}
		}
		pre := 3
		if v.ID == spec.V40 {
			pre = 4
		}
		nChunks := 1
		for _, m := range opt[:pre] {
			nChunks *= len(v.Metrics[m].Values)
		}
		stride := 1
		if c.Quick && v.ID != spec.V20 {
			stride = 20
			if v.ID == spec.V40 {
				stride = 128
			}
		}
		off := c.Rand("walk-offset", v.Name).Intn(stride)
		walk := opt[pre:]
		c.Parallel("configuration-walk-"+v.Name, (nChunks-off+stride-1)/stride, 1, func(w *Worker, k int) {
			ci := off + k*stride
			a := gen.KSparseAssign(w.R, v, 0)
			for mI, me := range v.Metrics {
				if me.Group == spec.GSupp {
					a[mI] = uint8(w.R.Intn(len(me.Values)))
				}
			}
			x := ci
			for _, m := range opt[:pre] {
				n := len(v.Metrics[m].Values)
				a[m] = uint8(x % n)
				x /= n
			}
			for _, m := range walk {
				a[m] = 0
			}
			o, fail := Build(api, a, HSetInOrder, w.R, nil)
			if fail != "" {
				c.Violate(Violation{Kind: "cannot-build-object", Version: v.Name, Expected: v.Canonical(a), Observed: fail})
				return
			}
			n := len(walk)
			dig, foc, dir := make([]int, n), make([]int, n+1), make([]int, n)
			for j := range foc {
				foc[j] = j
			}
			for j := range dir {
				dir[j] = 1
			}
			var cnt int64
			for {
				if cnt&1023 == 1023 && v.ID != spec.V20 {
					// a base or supplemental metric changes too, so that conjunctions across groups are visited
					for tries := 0; tries < 4; tries++ {
						mI := w.R.Intn(v.N())
						if me := v.Metrics[mI]; me.Mandatory || me.Group == spec.GSupp {
							a[mI] = uint8(w.R.Intn(len(me.Values)))
							probe.SafeSet(o, me.Abv, me.Values[a[mI]])
							break
						}
					}
				}
				s, p := probe.SafeVector(o)
				q, err, pp := api.SafeParse(s)
				cnt++
				if p != nil || pp != nil || err != nil || q == nil || !q.Equal(o) {
					b := a.Clone()
					for j, m := range walk {
						b[m] = uint8(dig[j])
					}
					c.Violate(Violation{Kind: "roundtrip-not-equal", Version: v.Name, Steps: []Step{{Op: "parse", S: v.Canonical(b)}, {Op: "vector"}, {Op: "parse", S: s}},
						Expected: "Vector() of the object holding " + v.Canonical(b) + " parses back to an equal object", Observed: fmt.Sprintf("Vector()=%q err=%v panic=%v/%v", s, err, p, pp), Detail: map[string]any{"workload": "configuration-walk"}})
					if c.nviolA.Load() > 100 {
						break
					}
				}
				j := foc[0]
				foc[0] = 0
				if j == n {
					break
				}
				dig[j] += dir[j]
				if dig[j] == 0 || dig[j] == len(v.Metrics[walk[j]].Values)-1 {
					dir[j] = -dir[j]
					foc[j] = foc[j+1]
					foc[j+1] = j + 1
				}
				if err, p := probe.SafeSet(o, v.Metrics[walk[j]].Abv, v.Metrics[walk[j]].Values[dig[j]]); err != nil || p != nil {
					c.Violate(Violation{Kind: "cannot-build-object", Version: v.Name, Expected: "legal Set succeeds", Observed: fmt.Sprint(err, p)})
					break
				}
			}
			w.EvalN(2 * cnt)
			w.Acc[61] += cnt
			w.counts["configurations-walked-v"+v.Name] += cnt
		})
	}
	exhaustiveV2 := false
	// v2: complete enumeration in thorough, sample in quick
	{
		api := probe.APIs[spec.V20]
		v := api.Ver
		if !c.Quick {
			exhaustiveV2 = true
			const total = 139968000
			c.Parallel("v2-all", total, 1<<16, func(w *Worker, i int) {
				a := v2FromIndex(i)
				st := HSetInOrder
				if i%7 == 0 {
					st = int(uint(i/7) % NStyles)
				}
				objCase(w, api, a, st)
			})
			c.Extra["v2_objects_enumerated"] = total
		} else {
			c.Parallel("v2-sample", 3_000_000, 4096, func(w *Worker, i int) {
				a := gen.MixedAssign(w.R, v)
				objCase(w, api, a, w.R.Intn(NStyles))
				c.Distinct.Add(HashBytes(spec.V20, a))
			})
		}
	}
	for vi, api := range probe.APIs {
		if vi == spec.V20 {
			continue
		}
		api, vi := api, vi
		c.Parallel("random-"+api.Ver.Name, c.Pick(3_000_000, 150_000_000), 4096, func(w *Worker, i int) {
			a := gen.MixedAssign(w.R, api.Ver)
			objCase(w, api, a, w.R.Intn(NStyles))
			if c.Quick || i&7 == 0 {
				c.Distinct.Add(HashBytes(vi, a))
			}
		})
	}
	// accepted mutants are reachable objects too
	RunStream(c, StreamCfg{Anchors: c.Pick(2, 20), Random: c.Pick(150_000, 5_000_000), ValidBias: 20}, func(w *Worker, sc StrCase, res *[spec.NVersions]PerVer) {
		for vi := range res {
			r := &res[vi]
			if r.Err == nil && r.Obj != nil {
				w.Count("accepted-stream-objects")
				roundTrip(c, w, probe.APIs[vi], r.Obj, func() []Step { return parseSteps(sc.S) })
			}
		}
	})
	cellFloor(c)
	n := c.Distinct.Count() + c.Acc[61]
	if exhaustiveV2 {
		n += 139968000
	}
	c.SetReport(Report{
		Rule:        "objects are built only through the public API in five history styles (parse canonical, parse non-canonical spelling, Set in order, Set in random order with decoys and failing Sets, clone then Set), plus zero values and every object accepted from the hostile string stream; each is serialised, parsed back, compared with == and on every Get. distinct = distinct assignments (hash set; v2 thorough: complete enumeration counted by index); non-trivial = all. Plus a Gray-code configuration walk (one Set per step): ALL 139,968,000 v2.0 objects (every metric walked) in BOTH tiers; thorough visits ALL 221,184,000 optional-metric configurations of v3.0 and of v3.1 and all 1,179,648,000 threat+environmental configurations of v4.0 (quick: 1 chunk in 20 / 128). exhaustive=true (thorough tier) refers to v2.0 completely and to v3/v4 up to base and supplemental values, which are seeded.",
		Exhaustive:  exhaustiveV2,
		DistinctN:   n,
		Assumptions: []string{"v3/v4 spaces are sampled; the floor is all (metric,value) pairs and all pairs of (metric,value) choices"},
	})
	c.Finish()
}

func cellKey(v *spec.Version, m, vi int) string {
	return "cell:" + v.Name + ":" + v.Metrics[m].Abv + "=" + v.Metrics[m].Values[vi]
}

// cellFloor requires every (metric,value) pair to have been hit and folds the counters.
func cellFloor(c *Ctx) {
	cells, missing := 0, 0
	for _, v := range spec.Versions {
		for m, me := range v.Metrics {
			for vi := range me.Values {
				cells++
				if c.Counts[cellKey(v, m, vi)] == 0 {
					missing++
				}
			}
		}
	}
	c.Floor("(metric,value) pairs hit", int64(cells-missing), int64(cells))
	c.Extra["metric_value_pairs_total"] = cells
	c.Extra["metric_value_pairs_hit"] = cells - missing
	compactCells(c)
}

// v2FromIndex enumerates the 139,968,000 v2 assignments.
func v2FromIndex(i int) spec.Assign {
	a := make(spec.Assign, 14)
	for m, n := range [14]int{3, 3, 3, 3, 3, 3, 5, 5, 4, 6, 5, 4, 4, 4} {
		a[m] = uint8(i % n)
		i /= n
	}
	return a
}

// ---------------------------------------------------------------- C07 / C09 shared: hostile names and values

func hostileAbvs(v *spec.Version) []string {
	set := map[string]bool{}
	add := func(s string) { set[s] = true }
	for _, a := range gen.AllAbvs {
		add(a)
		add(strings.ToLower(a))
		add(strings.ToUpper(a))
		add(" " + a)
		add(a + " ")
		add(a + ":")
		add(a + "/")
		add("/" + a)
		add(a + a)
		add(a + "\x00")
		for _, l := range lookalikes(a) {
			add(l)
		}
		for _, l := range encodingTwins(a) {
			add(l)
		}
		for _, l := range lenWraps(a)[:3] {
			add(l)
		}
		if len(a) > 1 {
			add(a[:len(a)-1])
			add(a[1:])
			b := []byte(a)
			b[0] ^= 0x20
			add(string(b))
			b = []byte(a)
			b[len(b)-1] ^= 0x20
			add(string(b))
		}
	}
	for _, s := range []string{"", " ", ":", "/", "X", "ND", "CVSS", "CVSS:4.0", "M", "MS ", "MSS", "Modified", "AV:N", "\xff", "\x00", "0", "av:n"} {
		add(s)
	}
	out := make([]string, 0, len(set))
	for s := range set {
		out = append(out, s)
	}
	sortStrings(out)
	return out
}

// lenWraps returns strings that start with a and whose length is len(a) + 256k or len(a) + 65536: a length kept
// in a uint8 / uint16 (or compared modulo a table size) sees them as long as a itself.
func lenWraps(a string) []string {
	var out []string
	for _, n := range []int{256, 512, 65536} {
		out = append(out, a+strings.Repeat("A", n), a+strings.Repeat("\x00", n), (strings.Repeat(a+"/", n/(len(a)+1)+2))[:len(a)+n])
	}
	// total length exactly 256 / 65536 (a truncated length of 0)
	if len(a) < 256 {
		out = append(out, a+strings.Repeat(" ", 256-len(a)), a+strings.Repeat("A", 65536-len(a)))
	}
	return out
}

func hostileValues() []string {
	set := map[string]bool{}
	add := func(s string) { set[s] = true }
	for _, a := range gen.AllValues {
		add(a)
		add(strings.ToLower(a))
		add(strings.ToUpper(a))
		add(" " + a)
		add(a + " ")
		add(a + a)
		add(a + "/")
		add(a + "\x00")
		for _, l := range lookalikes(a) {
			add(l)
		}
		for _, l := range encodingTwins(a) {
			add(l)
		}
		for _, l := range lenWraps(a) {
			add(l)
		}
		if len(a) > 1 {
			add(a[:len(a)-1])
			add(a[1:])
		}
	}
	// every printable ASCII character, and every pair of upper-case letters
	for ch := byte(32); ch < 127; ch++ {
		add(string([]byte{ch}))
	}
	for a := byte('A'); a <= 'Z'; a++ {
		for b := byte('A'); b <= 'Z'; b++ {
			add(string([]byte{a, b}))
		}
	}
	for _, s := range []string{"", " ", ":", "/", "x", "nd", "Nd", "CLEAR", "clear", "Clea", "Reds", "0", "1", "\xff", "\x00", "None", "High", "Low"} {
		add(s)
	}
	out := make([]string, 0, len(set))
	for s := range set {
		out = append(out, s)
	}
	sortStrings(out)
	return out
}

// encodingTwins returns strings that a dispatch keyed on a few packed bytes / runes, on a hash, or on a
// trimmed / normalised form could confuse with a: control-byte and high-byte padding on either side,
// single runes whose code point is the big- or little-endian packing of a's bytes, ASCII + rune mixtures
// packing to the same integer, bytes with the high bit set, full-width and combining variants.
func encodingTwins(a string) []string {
	if a == "" {
		return nil
	}
	var out []string
	for _, pad := range []string{"\x00", "\x00\x00", "\x01", "\t", "\n", "\r", "\x7f", "\x80", "\xff", "\u00a0", "\u200b", "\ufeff"} {
		out = append(out, pad+a, a+pad, pad+a+pad)
	}
	b := []byte(a)
	if len(b) <= 3 {
		be, le := rune(0), rune(0)
		for i, c := range b {
			be = be<<8 | rune(c)
			le |= rune(c) << (8 * uint(i))
		}
		for _, r := range []rune{be, le} {
			if r > 0x7f && r < 0x110000 && (r < 0xd800 || r > 0xdfff) {
				out = append(out, string(r))
			}
		}
		if len(b) >= 2 {
			// first byte(s) kept, the rest folded into one rune (and the other way round)
			tail := rune(0)
			for _, c := range b[1:] {
				tail = tail<<8 | rune(c)
			}
			out = append(out, string(rune(b[0]))+string(tail+0x100), string(rune(b[0]-1))+string(tail+0x100))
			head := rune(0)
			for _, c := range b[:len(b)-1] {
				head = head<<8 | rune(c)
			}
			if head > 0x7f {
				out = append(out, string(head)+string(rune(b[len(b)-1])))
			}
		}
	}
	for i := range b {
		t := append([]byte{}, b...)
		t[i] |= 0x80
		out = append(out, string(t))
	}
	// full-width forms and a combining mark
	fw := ""
	for _, c := range a {
		if c > 0x20 && c < 0x7f {
			fw += string(c - 0x20 + 0xff00)
		} else {
			fw += string(c)
		}
	}
	out = append(out, fw, a+"\u0301", strings.ToLower(a)+"\u0301")
	return out
}

// lookalikes returns strings of the same length as a that keep its first and/or
// last byte but differ inside: what a shortened comparison (length + first byte,
// prefix, suffix, hash of a few bytes) cannot tell from the real word.
func lookalikes(a string) []string {
	if len(a) < 2 {
		return nil
	}
	var out []string
	b := []byte(a)
	for i := range b {
		for _, c := range []byte{'x', 'Z', '0', b[(i+1)%len(b)]} {
			if c != b[i] {
				t := append([]byte{}, b...)
				t[i] = c
				out = append(out, string(t))
			}
		}
	}
	// same first byte, same length, everything else different; same last byte likewise
	t := []byte(strings.Repeat("q", len(a)))
	t[0] = b[0]
	out = append(out, string(t))
	t = []byte(strings.Repeat("q", len(a)))
	t[len(t)-1] = b[len(b)-1]
	out = append(out, string(t))
	// reversed and rotated
	r := append([]byte{}, b...)
	for i, j := 0, len(r)-1; i < j; i, j = i+1, j-1 {
		r[i], r[j] = r[j], r[i]
	}
	out = append(out, string(r), a[1:]+a[:1])
	return out
}

func sortStrings(s []string) {
	for i := 1; i < len(s); i++ {
		for j := i; j > 0 && s[j] < s[j-1]; j-- {
			s[j], s[j-1] = s[j-1], s[j]
		}
	}
}

// wellFormed is the C09 sweep over a reachable object: all Gets legal, Vector
// grammatical and telling the same values, every scoring method returns.
func wellFormed(c *Ctx, w *Worker, api *probe.API, o probe.Obj, steps func() []Step) {
	v := api.Ver
	a, fail := readAll(o, v)
	w.EvalN(int64(v.N()))
	if fail != "" {
		c.Violate(Violation{Kind: "illegal-get-on-reachable-object", Version: v.Name, Steps: steps(), Expected: "every Get returns a legal value", Observed: fail + " object " + o.Bytes()})
		return
	}
	s, p := probe.SafeVector(o)
	w.Eval()
	if p != nil {
		c.Violate(Violation{Kind: "vector-panic", Version: v.Name, Steps: append(steps(), Step{Op: "vector"}), Expected: "a string", Observed: p.Val})
		return
	}
	ok, ra, _ := v.Recognise(s)
	if !ok {
		c.Violate(Violation{Kind: "vector-not-grammatical", Version: v.Name, Steps: append(steps(), Step{Op: "vector"}), Expected: "a well-formed v" + v.Name + " vector", Observed: s})
		return
	}
	if d := diffAssign(v, a, ra); d != "" {
		c.Violate(Violation{Kind: "vector-disagrees-with-get", Version: v.Name, Steps: append(steps(), Step{Op: "vector"}), Expected: "Vector() spells the values Get returns", Observed: s + " : " + d})
		return
	}
	for i, name := range api.ScoreNames {
		_, p := probe.SafeScore(o, i)
		w.Eval()
		if p != nil {
			c.Violate(Violation{Kind: "score-panic", Version: v.Name, Steps: append(steps(), Step{Op: "score"}), Expected: name + " returns", Observed: "panic: " + p.Val})
			return
		}
	}
	if api.Nomencl != nil {
		if _, p := api.SafeNomencl(o); p != nil {
			c.Violate(Violation{Kind: "nomenclature-panic", Version: v.Name, Steps: append(steps(), Step{Op: "nomenclature"}), Expected: "returns", Observed: p.Val})
		}
	}
	w.Count("wellformed-sweeps")
}

// targetAssigns are the objects whose NEIGHBOURHOOD in Set-space is worth a visit although no sampling reaches them:
// every base vector with all Modified metrics written as explicit copies (v3.x all, v4 a seeded eighth), the
// packed-code corners with everything 1-2 metrics away, and the literal-guided objects.
func targetAssigns(c *Ctx, api *probe.API) []spec.Assign {
	v := api.Ver
	out := append([]spec.Assign{}, cornerAssigns(api)...)
	if v.ID != spec.V20 {
		total, nb := 1, 0
		for _, me := range v.Metrics {
			if me.Mandatory {
				nb++
				total *= len(me.Values)
			}
		}
		stride := 1
		if v.ID == spec.V40 {
			stride = c.Pick(8, 1)
		}
		for i := c.Rand("targets", v.Name).Intn(stride); i < total; i += stride {
			a := v.ZeroAssign()
			k := i
			for m := 0; m < nb; m++ {
				n := len(v.Metrics[m].Values)
				a[m] = uint8(k % n)
				k /= n
			}
			explicitCopy(v, a)
			out = append(out, a)
		}
	}
	return out
}

// setTowards builds target from the zero object by one Set per metric in a seeded order (all metrics, or only those
// that differ from the zero object), reading EVERY metric back after EVERY Set against the shadow assignment.
func setTowards(c *Ctx, w *Worker, api *probe.API, target spec.Assign) {
	v := api.Ver
	o := api.New()
	shadow := v.ZeroAssign()
	// the zero object of a version reads back as its first values / not defined
	if a0, fail := readAll(o, v); fail == "" {
		shadow = a0
	}
	order := make([]int, v.N())
	for i := range order {
		order[i] = i
	}
	for i := len(order) - 1; i > 0; i-- {
		j := w.R.Intn(i + 1)
		order[i], order[j] = order[j], order[i]
	}
	var steps []Step
	steps = append(steps, Step{Op: "new"})
	for _, m := range order {
		me := v.Metrics[m]
		val := me.Values[target[m]]
		err, p := probe.SafeSet(o, me.Abv, val)
		steps = append(steps, Step{Op: "set", S: me.Abv, Val: val})
		w.Eval()
		if err != nil || p != nil {
			c.Violate(Violation{Kind: "set-accept-mismatch", Version: v.Name, Steps: append([]Step{}, steps...), Expected: "legal Set succeeds on the way to " + v.Canonical(target), Observed: fmt.Sprint(err, p)})
			return
		}
		shadow[m] = target[m]
		got, fail := readAll(o, v)
		w.EvalN(int64(v.N()))
		if fail != "" {
			c.Violate(Violation{Kind: "illegal-get-after-set", Version: v.Name, Steps: append([]Step{}, steps...), Expected: "legal values", Observed: fail})
			return
		}
		if d := diffAssign(v, shadow, got); d != "" {
			c.Violate(Violation{Kind: "set-changed-other-metric", Version: v.Name, Steps: append([]Step{}, steps...), Expected: "only " + me.Abv + " changes (on the way to " + v.Canonical(target) + ")", Observed: d})
			return
		}
	}
	w.Count("targeted-set-walks")
}

// ---------------------------------------------------------------- C07

// history runs a random Set history against a shadow map, checking after every step.
func history(c *Ctx, w *Worker, api *probe.API, n int, habv, hval []string, sweep bool) {
	v := api.Ver
	r := w.R
	var steps []Step
	var o probe.Obj
	var sh spec.Assign
	// start: zero value, or parse of a random vector
	if r.Bool() {
		o = api.New()
		steps = append(steps, Step{Op: "new"})
		// the zero value's meaning is whatever Get says; it must be legal (C09) -- read it as the initial shadow
		var fail string
		sh, fail = readAll(o, v)
		if fail != "" {
			c.Violate(Violation{Kind: "illegal-get-on-zero-value", Version: v.Name, Steps: steps, Expected: "legal values", Observed: fail})
			return
		}
	} else {
		sh = gen.RandomAssign(r, v)
		s := v.Canonical(sh)
		steps = append(steps, Step{Op: "parse", S: s})
		var err error
		var p *probe.Panic
		o, err, p = api.SafeParse(s)
		if p != nil || err != nil || o == nil {
			c.Violate(Violation{Kind: "cannot-build-object", Version: v.Name, Steps: steps, Expected: "accepted", Observed: fmt.Sprint(err, p)})
			return
		}
	}
	w.Count(fmt.Sprintf("history-len-%03d", n/25*25))
	for k := 0; k < n; k++ {
		before := o.Clone()
		var abv, val string
		mi, vi := -1, -1
		switch x := r.Intn(10); {
		case x < 7: // legal
			mi = r.Intn(v.N())
			vi = r.Intn(len(v.Metrics[mi].Values))
			abv, val = v.Metrics[mi].Abv, v.Metrics[mi].Values[vi]
		case x < 9: // known metric, illegal value
			mi = r.Intn(v.N())
			abv, val = v.Metrics[mi].Abv, r.Pick(hval)
			vi = v.ValueIndex(mi, val)
		default: // unknown abbreviation (or, by chance, a known one)
			abv, val = r.Pick(habv), r.Pick(hval)
			mi = v.Index(abv)
			if mi >= 0 {
				vi = v.ValueIndex(mi, val)
			}
		}
		steps = append(steps, Step{Op: "set", S: abv, Val: val})
		w.Enter("Set", abv+"="+val)
		err, p := probe.SafeSet(o, abv, val)
		w.Leave()
		w.Eval()
		legal := mi >= 0 && vi >= 0
		cp := func() []Step { return append([]Step{}, steps...) }
		if p != nil {
			c.Violate(Violation{Kind: "set-panic", Version: v.Name, Steps: cp(), Expected: "no panic", Observed: p.Val})
			return
		}
		if legal != (err == nil) {
			c.Violate(Violation{Kind: "set-accept-mismatch", Version: v.Name, Steps: cp(), Expected: fmt.Sprintf("Set(%q,%q) legal=%v", abv, val, legal), Observed: fmt.Sprintf("err=%v", err)})
			return
		}
		if legal {
			w.Count("set-ok")
			sh[mi] = uint8(vi)
		} else {
			w.Count("set-failed")
			if !o.Equal(before) {
				c.Violate(Violation{Kind: "failed-set-changed-object", Version: v.Name, Steps: cp(), Expected: "object unchanged " + before.Bytes(), Observed: o.Bytes()})
				return
			}
		}
		got, fail := readAll(o, v)
		w.EvalN(int64(v.N()))
		if fail != "" {
			c.Violate(Violation{Kind: "illegal-get-after-set", Version: v.Name, Steps: cp(), Expected: "legal values", Observed: fail})
			return
		}
		if d := diffAssign(v, sh, got); d != "" {
			kind := "set-changed-other-metric"
			if legal && got[mi] != sh[mi] {
				kind = "set-did-not-store-value"
			}
			c.Violate(Violation{Kind: kind, Version: v.Name, Steps: cp(), Expected: "only " + abv + " changes", Observed: d, Detail: map[string]any{"metric": abv}})
			return
		}
	}
	// canonical equality: same map reached by parse and by Set-in-order must be ==
	for _, st := range []int{HParseCanonical, HSetInOrder, HCloneThenSet} {
		q, fail := Build(api, sh, st, r, nil)
		if fail != "" {
			c.Violate(Violation{Kind: "cannot-build-object", Version: v.Name, Steps: steps, Expected: "public API realises " + v.Canonical(sh), Observed: fail})
			return
		}
		w.Eval()
		if !q.Equal(o) {
			c.Violate(Violation{Kind: "equal-maps-unequal-objects", Version: v.Name, Steps: append(append([]Step{}, steps...), Step{Op: "vector"}), Expected: "== object built by " + StyleNames[st] + " " + q.Bytes(), Observed: o.Bytes()})
			return
		}
	}
	w.Count("histories")
	c.Distinct.Add(HashBytes(v.ID, sh) ^ uint64(n)<<48)
	if sweep {
		wellFormed(c, w, api, o, func() []Step { return steps })
	}
	if w.nsample < 1<<14 {
		m := len(steps)
		if m > 6 {
			m = 6
		}
		w.Sample(map[string]any{"version": v.Name, "history_len": n, "first_steps": steps[:m], "final": v.Canonical(sh)})
	}
}

func CheckC07(c *Ctx) {
	hval := hostileValues()
	for _, api := range probe.APIs {
		api := api
		tl := targetAssigns(c, api)
		c.Parallel("targeted-set-walks-"+api.Ver.Name, len(tl), 32, func(w *Worker, i int) { setTowards(c, w, api, tl[i]) })
	}
	// (a)+(b) exhaustive quadruples (m, v, m', v') on three backgrounds; legal Set and failing Sets
	quads := int64(0)
	for _, api := range probe.APIs {
		api := api
		v := api.Ver
		habv := hostileAbvs(v)
		type mv struct{ m, vi int }
		var mvs []mv
		for m, me := range v.Metrics {
			for vi := range me.Values {
				mvs = append(mvs, mv{m, vi})
			}
		}
		n := len(mvs) * len(mvs) * 3
		c.Parallel("quads-"+v.Name, n, 512, func(w *Worker, i int) {
			bg := i % 3
			x := mvs[(i/3)%len(mvs)]
			y := mvs[i/3/len(mvs)]
			if x.m == y.m {
				return
			}
			a := gen.Background(w.R, v, bg)
			a[y.m] = uint8(y.vi)
			st := HSetInOrder
			if i&1 == 1 {
				st = HParseCanonical
			}
			o, fail := Build(api, a, st, w.R, nil)
			steps := func() []Step {
				return append([]Step{{Op: "parse", S: v.Canonical(a)}}, Step{Op: "set", S: v.Metrics[x.m].Abv, Val: v.Metrics[x.m].Values[x.vi]})
			}
			if fail != "" {
				c.Violate(Violation{Kind: "cannot-build-object", Version: v.Name, Steps: steps(), Expected: v.Canonical(a), Observed: fail})
				return
			}
			// failing Sets first: must leave the object bit-identical
			before := o.Clone()
			for k := 0; k < 3; k++ {
				var ab, val string
				switch k {
				case 0:
					ab, val = v.Metrics[x.m].Abv, w.R.Pick(hval)
					if v.ValueIndex(x.m, val) >= 0 {
						continue
					}
				case 1:
					ab, val = w.R.Pick(habv), v.Metrics[x.m].Values[x.vi]
					if v.Index(ab) >= 0 {
						continue
					}
				default:
					ab, val = v.Metrics[x.m].Abv, strings.ToLower(v.Metrics[x.m].Values[x.vi])
					if v.ValueIndex(x.m, val) >= 0 {
						continue
					}
				}
				err, p := probe.SafeSet(o, ab, val)
				w.Eval()
				if p != nil || err == nil || !o.Equal(before) {
					c.Violate(Violation{Kind: "failed-set-changed-object", Version: v.Name, Steps: []Step{{Op: "parse", S: v.Canonical(a)}, {Op: "set", S: ab, Val: val}},
						Expected: "error and unchanged object " + before.Bytes(), Observed: fmt.Sprintf("err=%v panic=%v object %s", err, p, o.Bytes())})
					return
				}
				w.Count("failing-sets-checked")
			}
			err, p := probe.SafeSet(o, v.Metrics[x.m].Abv, v.Metrics[x.m].Values[x.vi])
			w.Eval()
			if p != nil || err != nil {
				c.Violate(Violation{Kind: "set-accept-mismatch", Version: v.Name, Steps: steps(), Expected: "legal Set succeeds", Observed: fmt.Sprint(err, p)})
				return
			}
			a[x.m] = uint8(x.vi)
			got, fail := readAll(o, v)
			w.EvalN(int64(v.N()))
			if fail != "" {
				c.Violate(Violation{Kind: "illegal-get-after-set", Version: v.Name, Steps: steps(), Expected: "legal values", Observed: fail})
				return
			}
			if d := diffAssign(v, a, got); d != "" {
				kind := "set-changed-other-metric"
				if got[x.m] != a[x.m] {
					kind = "set-did-not-store-value"
				}
				c.Violate(Violation{Kind: kind, Version: v.Name, Steps: steps(), Expected: "only " + v.Metrics[x.m].Abv + " changes", Observed: d, Detail: map[string]any{"metric": v.Metrics[x.m].Abv}})
				return
			}
			// canonical equality with a freshly parsed object
			q, _, _ := api.SafeParse(v.Canonical(a))
			if q == nil || !q.Equal(o) {
				c.Violate(Violation{Kind: "equal-maps-unequal-objects", Version: v.Name, Steps: steps(), Expected: "== ParseVector(" + v.Canonical(a) + ")", Observed: o.Bytes()})
				return
			}
			w.Count("quadruples-v" + v.Name)
			if w.nsample < 1<<12 {
				w.Sample(map[string]any{"version": v.Name, "background": v.Canonical(a), "set": v.Metrics[x.m].Abv + "=" + v.Metrics[x.m].Values[x.vi], "neighbour": v.Metrics[y.m].Abv + "=" + v.Metrics[y.m].Values[y.vi]})
			}
		})
		quads += c.Counts["quadruples-v"+v.Name]
	}
	// (c)+(d) random histories
	for _, api := range probe.APIs {
		api := api
		habv := hostileAbvs(api.Ver)
		c.Parallel("histories-"+api.Ver.Name, c.Pick(200_000, 15_000_000), 256, func(w *Worker, i int) {
			n := 1 + w.R.Intn(200)
			if w.R.Chance(3, 4) {
				n = 1 + w.R.Intn(40)
			}
			history(c, w, api, n, habv, hval, false)
		})
	}
	// (e) CONFIGURATION WALK: every configuration of the optional metrics in Gray-code order, one Set per step
	// on one object; after every Set the changed metric and (thorough: all; quick: four rotating) other
	// metrics are read back and compared with the shadow map. Complete in thorough for every version
	// (v4.0: threat + environmental metrics, supplemental seeded); quick walks a seeded fraction of the chunks.
	for _, api := range probe.APIs {
		api := api
		v := api.Ver
		var opt []int
		for m, me := range v.Metrics {
			if !me.Mandatory && me.Group != spec.GSupp {
				opt = append(opt, m)
			}
		}
		pre := 3
		if v.ID == spec.V40 {
			pre = 4
		}
		nChunks := 1
		for _, m := range opt[:pre] {
			nChunks *= len(v.Metrics[m].Values)
		}
		stride := 1
		if c.Quick {
			switch v.ID {
			case spec.V20:
				stride = 1
			case spec.V40:
				stride = 64
			default:
				stride = 10
			}
		}
		off := c.Rand("walk-offset", v.Name).Intn(stride)
		walk := opt[pre:]
		c.Parallel("configuration-walk-"+v.Name, (nChunks-off+stride-1)/stride, 1, func(w *Worker, k int) {
			ci := off + k*stride
			a := gen.KSparseAssign(w.R, v, 0)
			for mI, me := range v.Metrics {
				if me.Group == spec.GSupp {
					a[mI] = uint8(w.R.Intn(len(me.Values)))
				}
			}
			x := ci
			for _, m := range opt[:pre] {
				n := len(v.Metrics[m].Values)
				a[m] = uint8(x % n)
				x /= n
			}
			o, fail := Build(api, a, HSetInOrder, w.R, nil)
			if fail != "" {
				c.Violate(Violation{Kind: "cannot-build-object", Version: v.Name, Expected: v.Canonical(a), Observed: fail})
				return
			}
			n := len(walk)
			dig, foc, dir := make([]int, n), make([]int, n+1), make([]int, n)
			for j := range foc {
				foc[j] = j
			}
			for j := range dir {
				dir[j] = 1
			}
			var cnt int64
			rot := 0
			for {
				if cnt&1023 == 1023 {
					for tries := 0; tries < 4; tries++ {
						mI := w.R.Intn(v.N())
						if me := v.Metrics[mI]; me.Mandatory || me.Group == spec.GSupp {
							a[mI] = uint8(w.R.Intn(len(me.Values)))
							probe.SafeSet(o, me.Abv, me.Values[a[mI]])
							break
						}
					}
				}
				j := foc[0]
				foc[0] = 0
				if j == n {
					break
				}
				dig[j] += dir[j]
				if dig[j] == 0 || dig[j] == len(v.Metrics[walk[j]].Values)-1 {
					dir[j] = -dir[j]
					foc[j] = foc[j+1]
					foc[j+1] = j + 1
				}
				m := walk[j]
				a[m] = uint8(dig[j])
				err, p := probe.SafeSet(o, v.Metrics[m].Abv, v.Metrics[m].Values[dig[j]])
				cnt++
				bad := ""
				if err != nil || p != nil {
					bad = fmt.Sprint("Set failed: ", err, p)
				}
				check := func(mm int) {
					if bad != "" {
						return
					}
					g, e2, p2 := probe.SafeGet(o, v.Metrics[mm].Abv)
					cnt++
					if e2 != nil || p2 != nil || g != v.Metrics[mm].Values[a[mm]] {
						bad = fmt.Sprintf("Get(%q) = (%q, %v, %v), shadow map says %q", v.Metrics[mm].Abv, g, e2, p2, v.Metrics[mm].Values[a[mm]])
					}
				}
				check(m)
				if c.Quick {
					for t := 0; t < 4; t++ {
						rot = (rot + 1) % v.N()
						check(rot)
					}
				} else {
					for mm := range v.Metrics {
						check(mm)
					}
				}
				if bad != "" {
					c.Violate(Violation{Kind: "set-changed-other-metric", Version: v.Name, Steps: []Step{{Op: "parse", S: v.Canonical(a)}, {Op: "set", S: v.Metrics[m].Abv, Val: v.Metrics[m].Values[dig[j]]}},
						Expected: "after a Gray-code walk of Set calls the object holds " + v.Canonical(a), Observed: bad, Detail: map[string]any{"metric": v.Metrics[m].Abv, "workload": "configuration-walk"}})
					if c.nviolA.Load() > 100 {
						break
					}
					// resynchronise the object with the shadow map and go on
					o, _ = Build(api, a, HParseCanonical, w.R, nil)
					if o == nil {
						break
					}
				}
			}
			w.EvalN(cnt)
			w.counts["configuration-walk-sets-v"+v.Name] += int64(0)
			w.Acc[60] += cnt
		})
	}
	c.Extra["configuration_walk_calls"] = c.Acc[60]
	c.Floor("successful Sets", c.Counts["set-ok"], 100000)
	c.Floor("failed Sets", c.Counts["set-failed"], 10000)
	c.Extra["quadruples_complete"] = true
	c.Extra["quadruples"] = quads
	c.SetReport(Report{
		Rule:        "targeted Set walks: every base vector with all Modified metrics as explicit copies (v3.x all, v4 a seeded eighth), the packed-code corners with everything 1-2 metrics away and the literal-guided objects are each built from the zero object by one Set per metric in a seeded order, EVERY metric read back after EVERY Set; (a) COMPLETE set of quadruples (metric m, value v, other metric m', value v') on three backgrounds (all-first-code, all-last-code, random): object built through the API, three failing Sets (illegal value, unknown abbreviation, lower-case value) must leave it bit-identical, then Set(m,v) must change m and nothing else (all Gets vs shadow map) and the result must be == to the freshly parsed canonical vector; (b) random histories of 1-200 Sets (70% legal / 20% illegal value / 10% unknown abbreviation) checked against the shadow map after EVERY step, final object compared with == against three independently built objects; (c) a Gray-code walk over every configuration of the optional metrics (complete in thorough: 192,000 / 221,184,000 x2 / 1,179,648,000; quick: a seeded fraction of the chunks), one Set per step with read-back against the shadow map. evaluations = API calls; distinct = quadruples + distinct (final map, length) histories",
		Exhaustive:  false,
		DistinctN:   quads + c.Distinct.Count(),
		Assumptions: []string{"the quadruple matrix is complete; histories are sampled"},
	})
	c.Finish()
}

// ---------------------------------------------------------------- C09

func CheckC09(c *Ctx) {
	for _, api := range probe.APIs {
		api := api
		tl := targetAssigns(c, api)
		c.Parallel("targeted-set-walks-"+api.Ver.Name, len(tl), 32, func(w *Worker, i int) { setTowards(c, w, api, tl[i]) })
	}
	hval := hostileValues()
	var matrix int64
	for _, api := range probe.APIs {
		api := api
		v := api.Ver
		habv := hostileAbvs(v)
		c.Extra["abbreviations_tried_v"+v.Name] = len(habv)
		// full cross product abbreviation x value on the zero value, the highest-code corner object and a seeded random object
		c.Parallel("matrix-"+v.Name, len(habv), 1, func(w *Worker, i int) {
			ab := habv[i]
			m := v.Index(ab)
			objs := []probe.Obj{api.New()}
			starts := []string{"<zero value>"}
			for k := 0; k < 2; k++ {
				a := gen.RandomAssign(w.R, v)
				if cs := cornerAssigns(api); k == 0 && len(cs) > 0 {
					a = cs[0].Clone() // the highest-code corner: every field holds its top code (e.g. MSI:S and MSA:S)
				}
				o, fail := Build(api, a, HParseCanonical, w.R, nil)
				if fail != "" {
					c.Violate(Violation{Kind: "cannot-build-object", Version: v.Name, Expected: v.Canonical(a), Observed: fail})
					return
				}
				objs = append(objs, o)
				starts = append(starts, v.Canonical(a))
			}
			for oi, o := range objs {
				base := func() []Step {
					if oi == 0 {
						return []Step{{Op: "new"}}
					}
					return []Step{{Op: "parse", S: starts[oi]}}
				}
				// Get
				g, err, p := probe.SafeGet(o, ab)
				w.Eval()
				switch {
				case p != nil:
					c.Violate(Violation{Kind: "get-panic", Version: v.Name, Steps: append(base(), Step{Op: "get", S: ab}), Expected: "no panic", Observed: p.Val})
				case m >= 0 && (err != nil || v.ValueIndex(m, g) < 0):
					c.Violate(Violation{Kind: "get-known-metric-failed", Version: v.Name, Steps: append(base(), Step{Op: "get", S: ab}), Expected: "a legal value of " + ab, Observed: fmt.Sprintf("(%q,%v)", g, err)})
				case m < 0 && err == nil:
					c.Violate(Violation{Kind: "get-unknown-metric-accepted", Version: v.Name, Steps: append(base(), Step{Op: "get", S: ab}), Expected: "an error", Observed: fmt.Sprintf("(%q,nil)", g)})
				}
				if m >= 0 {
					w.Count("get-known")
				} else {
					w.Count("get-unknown-refused")
				}
				for _, val := range hval {
					legal := m >= 0 && v.ValueIndex(m, val) >= 0
					q := o.Clone()
					err, p := probe.SafeSet(q, ab, val)
					w.Eval()
					st := func() []Step { return append(base(), Step{Op: "set", S: ab, Val: val}) }
					switch {
					case p != nil:
						c.Violate(Violation{Kind: "set-panic", Version: v.Name, Steps: st(), Expected: "no panic", Observed: p.Val})
					case legal && err != nil:
						c.Violate(Violation{Kind: "set-legal-refused", Version: v.Name, Steps: st(), Expected: "nil", Observed: err.Error()})
					case !legal && err == nil:
						c.Violate(Violation{Kind: "set-illegal-accepted", Version: v.Name, Steps: st(), Expected: "an error", Observed: "nil; object " + q.Bytes(), Detail: map[string]any{"metric": ab, "value": val}})
						wellFormed(c, w, api, q, st)
					case !legal && !q.Equal(o):
						c.Violate(Violation{Kind: "failed-set-changed-object", Version: v.Name, Steps: st(), Expected: o.Bytes(), Observed: q.Bytes()})
					}
					if legal {
						w.Count("accept:" + v.Name + ":" + ab)
						g2, _, _ := probe.SafeGet(q, ab)
						if g2 != val {
							c.Violate(Violation{Kind: "set-did-not-store-value", Version: v.Name, Steps: append(st(), Step{Op: "get", S: ab}), Expected: val, Observed: g2})
						}
					}
				}
			}
			if i%16 == 0 {
				w.Sample(map[string]any{"version": v.Name, "abbreviation": ab, "known": m >= 0, "values_tried": len(hval)})
			}
		})
		// COMPLETE: every string of at most 3 (thorough: 4) ASCII letters as an abbreviation for Get and Set
		{
			letters := "ABCDEFGHIJKLMNOPQRSTUVWXYZabcdefghijklmnopqrstuvwxyz"
			maxLen := c.Pick(3, 4)
			total, pow := 0, 1
			for l := 0; l <= maxLen; l++ {
				total += pow
				pow *= len(letters)
			}
			c.Parallel("abbreviations-exhaustive-"+v.Name, total, 8192, func(w *Worker, i int) {
				l, base, k := 0, 1, i
				for k >= base {
					k -= base
					base *= len(letters)
					l++
				}
				b := make([]byte, l)
				for j := 0; j < l; j++ {
					b[j] = letters[k%len(letters)]
					k /= len(letters)
				}
				ab := string(b)
				m := v.Index(ab)
				o := api.New()
				_, err, p := probe.SafeGet(o, ab)
				err2, p2 := probe.SafeSet(o, ab, "N")
				w.EvalN(2)
				legalSet := m >= 0 && v.ValueIndex(m, "N") >= 0
				if p != nil || p2 != nil || (m >= 0) != (err == nil) || legalSet != (err2 == nil) {
					c.Violate(Violation{Kind: "abbreviation-vocabulary-mismatch", Version: v.Name, Steps: []Step{{Op: "new"}, {Op: "get", S: ab}, {Op: "set", S: ab, Val: "N"}},
						Expected: fmt.Sprintf("Get(%q) known=%v, Set(%q,\"N\") legal=%v", ab, m >= 0, ab, legalSet), Observed: fmt.Sprint(err, p, err2, p2)})
				}
				w.Count("abbreviations-enumerated")
			})
			matrix += int64(total)
		}
		matrix += int64(len(habv)) * int64(len(hval)) * 3
		// accept counts per metric must equal the number of specified values (x3 objects)
		for m, me := range v.Metrics {
			got := c.Counts["accept:"+v.Name+":"+me.Abv]
			if got != int64(3*len(me.Values)) {
				c.Inconclusive = append(c.Inconclusive, fmt.Sprintf("v%s metric %s: %d accepted Sets on 3 objects, specification has %d values", v.Name, me.Abv, got, len(me.Values)))
			}
			_ = m
		}
		// zero value + hostile histories followed by the well-formedness sweep
		c.Parallel("zero-"+v.Name, 1, 1, func(w *Worker, i int) {
			wellFormed(c, w, api, api.New(), func() []Step { return []Step{{Op: "new"}} })
		})
		c.Parallel("sweeps-"+v.Name, c.Pick(150_000, 12_000_000), 256, func(w *Worker, i int) {
			n := 1 + w.R.Intn(60)
			history(c, w, api, n, habv, hval, true)
		})
	}
	for k := range c.Counts {
		if strings.HasPrefix(k, "accept:") || strings.HasPrefix(k, "history-len") {
			delete(c.Counts, k)
		}
	}
	c.Floor("well-formedness sweeps", c.Counts["wellformed-sweeps"], 1000)
	c.Extra["values_tried"] = len(hval)
	c.Extra["matrix_cells"] = matrix
	c.SetReport(Report{
		Rule:        "targeted Set walks: every base vector with all Modified metrics as explicit copies (v3.x all, v4 a seeded eighth), the packed-code corners with everything 1-2 metrics away and the literal-guided objects are each built from the zero object by one Set per metric in a seeded order, EVERY metric read back after EVERY Set; COMPLETE cross product (hostile abbreviation list incl. every abbreviation of all four versions, case variants, prefixes/suffixes, padded, doubled, empty) x (hostile value list built the same way from every value of every version) offered to Get/Set of each version on the zero value and two random objects; accept iff in the version's vocabulary; EVERY string of at most 3 (thorough: 4) ASCII letters as abbreviation; then zero values and random hostile Set histories (length 1-60) each followed by the well-formedness sweep (all Gets legal, Vector() accepted by the recogniser and agreeing with Get, every scoring method and Nomenclature return). distinct = matrix cells + distinct histories",
		DistinctN:   matrix + c.Distinct.Count(),
		Assumptions: []string{"vocabulary tables in harness/spec/vocab.go are the specifications' metric/value sets"},
	})
	c.Finish()
}

// ---------------------------------------------------------------- C16

func nomenclatureOracle(v *spec.Version, a spec.Assign) string {
	t, e := false, false
	for m, me := range v.Metrics {
		if a[m] == 0 {
			continue
		}
		switch me.Group {
		case spec.GTemporal:
			t = true
		case spec.GEnv:
			e = true
		}
	}
	s := "CVSS-B"
	if t {
		s += "T"
	}
	if e {
		s += "E"
	}
	return s
}

func CheckC16(c *Ctx) {
	api := probe.APIs[spec.V40]
	v := api.Ver
	check := func(w *Worker, a spec.Assign, st int, label string) {
		saved := *w.R
		o, fail := Build(api, a, st, w.R, nil)
		if fail != "" {
			c.Violate(Violation{Kind: "cannot-build-object", Version: v.Name, Steps: BuildRecorded(api, a, st, saved), Expected: v.Canonical(a), Observed: fail})
			return
		}
		want := nomenclatureOracle(v, a)
		w.Enter("Nomenclature", "")
		got, p := api.SafeNomencl(o)
		w.Leave()
		w.Eval()
		if p != nil || got != want {
			obs := got
			if p != nil {
				obs = "panic: " + p.Val
			}
			c.Violate(Violation{Kind: "wrong-nomenclature", Version: v.Name, Steps: append(BuildRecorded(api, a, st, saved), Step{Op: "nomenclature"}), Expected: want + " for " + v.Canonical(a), Observed: obs, Detail: map[string]any{"case": label}})
		}
		w.Count("result:" + want)
		w.Count("style:" + StyleNames[st])
		if w.nsample < 1<<14 {
			w.Sample(map[string]any{"vector": v.Canonical(a), "history": StyleNames[st], "nomenclature": got})
		}
	}
	opt := []int{}
	for m, me := range v.Metrics {
		if !me.Mandatory {
			opt = append(opt, m)
		}
	}
	// exactly one optional metric defined x every value x 3 base backgrounds x every history style
	type one struct{ m, vi, bg int }
	var ones []one
	for _, m := range opt {
		for vi := 1; vi < len(v.Metrics[m].Values); vi++ {
			for bg := 0; bg < 3; bg++ {
				ones = append(ones, one{m, vi, bg})
			}
		}
	}
	baseBG := func(r *gen.Rand, bg int) spec.Assign {
		a := v.ZeroAssign()
		for m, me := range v.Metrics {
			if !me.Mandatory {
				continue
			}
			switch bg {
			case 1:
				a[m] = uint8(len(me.Values) - 1)
			case 2:
				a[m] = uint8(r.Intn(len(me.Values)))
			}
		}
		return a
	}
	c.Parallel("sole-metric", len(ones), 16, func(w *Worker, i int) {
		x := ones[i]
		for st := 0; st < NStyles; st++ {
			a := baseBG(w.R, x.bg)
			a[x.m] = uint8(x.vi)
			check(w, a, st, "sole:"+v.Metrics[x.m].Abv)
		}
		w.Count("sole:" + v.Metrics[x.m].Abv)
		c.Distinct.Add(uint64(i) + 1)
	})
	// all but one (the missing one at X, every other optional metric at every defined value in turn)
	c.Parallel("all-but-one", len(opt)*3, 4, func(w *Worker, i int) {
		miss := opt[i/3]
		a := baseBG(w.R, i%3)
		for _, m := range opt {
			if m != miss {
				a[m] = uint8(1 + w.R.Intn(len(v.Metrics[m].Values)-1))
			}
		}
		for st := 0; st < NStyles; st++ {
			check(w, a, st, "all-but:"+v.Metrics[miss].Abv)
		}
		c.Distinct.Add(HashBytes(40, a))
	})
	{
		list := cornerAssigns(api)
		c.Parallel("packed-corners", len(list), 64, func(w *Worker, i int) {
			check(w, list[i], i%NStyles, "packed-corner")
			c.Distinct.Add(HashBytes(44, list[i]))
		})
	}
	// pairs of objects whose packed bytes collide under a common 32-bit hash (collide.go), named back to back
	objCollisionPairs(c, api, func(w *Worker, a spec.Assign, i int) { check(w, a, i%NStyles, "object-collision-pair") })
	// none, all
	c.Parallel("none-all", 6, 1, func(w *Worker, i int) {
		a := baseBG(w.R, i%3)
		if i >= 3 {
			for _, m := range opt {
				a[m] = uint8(1 + w.R.Intn(len(v.Metrics[m].Values)-1))
			}
		}
		for st := 0; st < NStyles; st++ {
			check(w, a, st, "none-or-all")
		}
		c.Distinct.Add(HashBytes(41, a))
	})
	// every pair of optional metrics defined alone
	np := len(opt) * (len(opt) - 1) / 2
	c.Parallel("pairs", np, 8, func(w *Worker, i int) {
		k := 0
		for x := 0; x < len(opt); x++ {
			for y := x + 1; y < len(opt); y++ {
				if k == i {
					for v1 := 1; v1 < len(v.Metrics[opt[x]].Values); v1++ {
						for v2 := 1; v2 < len(v.Metrics[opt[y]].Values); v2++ {
							a := baseBG(w.R, 2)
							a[opt[x]], a[opt[y]] = uint8(v1), uint8(v2)
							check(w, a, w.R.Intn(NStyles), "pair")
							c.Distinct.Add(HashBytes(42, a))
						}
					}
				}
				k++
			}
		}
	})
	// COMPLETE: every set of at most 4 (thorough: 5) optional metrics defined, with every combination of
	// their defined values, all other optional metrics not defined
	subsets := gen.SparseSubsets(v, c.Pick(4, 5))
	var enumerated atomic.Int64
	c.Parallel("at-most-k-defined", len(subsets), 1, func(w *Worker, i int) {
		base := baseBG(w.R, 2)
		n := 0
		gen.EnumSubsetValues(v, base, subsets[i], func(a spec.Assign) {
			st := HParseCanonical
			if n%3 == 1 {
				st = HSetInOrder
			} else if n%3 == 2 {
				st = HSetHostile
			}
			check(w, a.Clone(), st, "at-most-k-defined")
			n++
		})
		enumerated.Add(int64(n))
	})
	c.Extra["assignments_with_at_most_k_optional_metrics_defined"] = enumerated.Load()
	c.Extra["k"] = c.Pick(4, 5)
	// COMPLETE over the whole space Nomenclature can depend on: all 1,179,648,000 configurations of the
	// threat metric E and the 14 environmental metrics, walked in reflected mixed-radix Gray order so that
	// each configuration is reached from the previous one by ONE Set call on the same object (the object is
	// therefore also the product of a very long Set history); base and supplemental metrics seeded per chunk.
	{
		pre := []int{v.Index("E"), v.Index("CR"), v.Index("IR"), v.Index("AR")}
		var rest []int
		for m, me := range v.Metrics {
			if me.Group == spec.GEnv && m != pre[1] && m != pre[2] && m != pre[3] {
				rest = append(rest, m)
			}
		}
		nPre := 4 * 4 * 4 * 4
		var walked atomic.Int64
		// thorough: six passes with different seeded base / supplemental values under the walk (a condition that also pins
		// the supplemental metrics is met by one supplemental configuration in 2,160 per visit)
		for pass := 0; pass < c.Pick(1, 6); pass++ {
			c.Parallel(fmt.Sprintf("all-threat-x-environmental-configurations-pass%d", pass), nPre, 1, func(w *Worker, ci int) {
				a := gen.KSparseAssign(w.R, v, 0) // random base, nothing optional
				for _, m := range v.Metrics {
					_ = m
				}
				for mI, me := range v.Metrics {
					if me.Group == spec.GSupp {
						a[mI] = uint8(w.R.Intn(len(me.Values)))
					}
				}
				k := ci
				for _, m := range pre {
					a[m] = uint8(k % 4)
					k /= 4
				}
				o, fail := Build(api, a, HSetInOrder, w.R, nil)
				if fail != "" {
					c.Violate(Violation{Kind: "cannot-build-object", Version: v.Name, Expected: v.Canonical(a), Observed: fail})
					return
				}
				tDef := a[pre[0]] != 0
				preEnv := a[pre[1]] != 0 || a[pre[2]] != 0 || a[pre[3]] != 0
				n := len(rest)
				dig := make([]int, n)
				foc := make([]int, n+1)
				dir := make([]int, n)
				for j := range foc {
					foc[j] = j
				}
				for j := range dir {
					dir[j] = 1
				}
				defined := 0
				var cnt int64
				for {
					// visit
					want := "CVSS-B"
					if tDef {
						want += "T"
					}
					if preEnv || defined > 0 {
						want += "E"
					}
					got, p := api.SafeNomencl(o)
					cnt++
					if p != nil || got != want {
						b := a.Clone()
						for j, m := range rest {
							b[m] = uint8(dig[j])
						}
						c.Violate(Violation{Kind: "wrong-nomenclature", Version: v.Name, Steps: []Step{{Op: "parse", S: v.Canonical(b)}, {Op: "nomenclature"}}, Expected: want + " for " + v.Canonical(b) + " (reached through a Gray-code walk of Set calls)", Observed: fmt.Sprint(got, p), Detail: map[string]any{"case": "all-configurations"}})
						if c.nviolA.Load() > 200 {
							break
						}
					}
					// every 2,048 steps one base or supplemental metric (which must not matter) is changed too
					if cnt&2047 == 0 {
						for tries := 0; tries < 4; tries++ {
							mI := w.R.Intn(v.N())
							if me := v.Metrics[mI]; me.Mandatory || me.Group == spec.GSupp {
								a[mI] = uint8(w.R.Intn(len(me.Values)))
								probe.SafeSet(o, me.Abv, me.Values[a[mI]])
								break
							}
						}
					}
					// next configuration: exactly one digit moves by one
					j := foc[0]
					foc[0] = 0
					if j == n {
						break
					}
					was := dig[j]
					dig[j] += dir[j]
					if dig[j] == 0 || dig[j] == len(v.Metrics[rest[j]].Values)-1 {
						dir[j] = -dir[j]
						foc[j] = foc[j+1]
						foc[j+1] = j + 1
					}
					if was == 0 {
						defined++
					} else if dig[j] == 0 {
						defined--
					}
					if err, p := probe.SafeSet(o, v.Metrics[rest[j]].Abv, v.Metrics[rest[j]].Values[dig[j]]); err != nil || p != nil {
						c.Violate(Violation{Kind: "set-accept-mismatch", Version: v.Name, Expected: "legal Set succeeds", Observed: fmt.Sprint(err, p)})
						break
					}
				}
				w.EvalN(cnt)
				if pass == 0 {
					w.Acc[63] += cnt
				}
				walked.Add(cnt)
			})
		}
		c.Extra["threat_x_environmental_configurations_walked"] = walked.Load()
		c.Floor("threat x environmental configurations", walked.Load(), 1179648000)
	}
	// COMPLETE over each group of metrics the function must NOT depend on: (a) all 2,160 configurations of the six
	// supplemental metrics x all 4 values of E x {no environmental metric, each environmental metric alone at each of its
	// defined values} x 3 base backgrounds; (b) all 104,976 base configurations x E in {X, one defined value} x {no
	// environmental metric, one alone} x supplemental {none, all at their last value, random}
	{
		var supp, env, base []int
		for m, me := range v.Metrics {
			switch {
			case me.Group == spec.GSupp:
				supp = append(supp, m)
			case me.Group == spec.GEnv:
				env = append(env, m)
			case me.Mandatory:
				base = append(base, m)
			}
		}
		type ec struct{ m, vi int }
		envCases := []ec{{-1, 0}}
		for _, m := range env {
			for vi := 1; vi < len(v.Metrics[m].Values); vi++ {
				envCases = append(envCases, ec{m, vi})
			}
		}
		nSupp := 1
		for _, m := range supp {
			nSupp *= len(v.Metrics[m].Values)
		}
		eI := v.Index("E")
		var nA, nB atomic.Int64
		c.Parallel("all-supplemental-configurations", nSupp, 8, func(w *Worker, i int) {
			n := 0
			for bg := 0; bg < 3; bg++ {
				a := baseBG(w.R, bg)
				k := i
				for _, m := range supp {
					a[m] = uint8(k % len(v.Metrics[m].Values))
					k /= len(v.Metrics[m].Values)
				}
				for e := 0; e < len(v.Metrics[eI].Values); e++ {
					a[eI] = uint8(e)
					for _, x := range envCases {
						if x.m >= 0 {
							a[x.m] = uint8(x.vi)
						}
						check(w, a.Clone(), n%NStyles, "all-supplemental")
						n++
						if x.m >= 0 {
							a[x.m] = 0
						}
					}
				}
			}
			nA.Add(int64(n))
			w.Acc[63] += int64(n)
		})
		nBase := 1
		for _, m := range base {
			nBase *= len(v.Metrics[m].Values)
		}
		c.Parallel("all-base-configurations", nBase, 256, func(w *Worker, i int) {
			a := v.ZeroAssign()
			k := i
			for _, m := range base {
				a[m] = uint8(k % len(v.Metrics[m].Values))
				k /= len(v.Metrics[m].Values)
			}
			n := 0
			for e := 0; e < 2; e++ {
				a[eI] = 0
				if e == 1 {
					a[eI] = uint8(1 + w.R.Intn(len(v.Metrics[eI].Values)-1))
				}
				for env1 := 0; env1 < 2; env1++ {
					x := envCases[0]
					if env1 == 1 {
						x = envCases[1+w.R.Intn(len(envCases)-1)]
						a[x.m] = uint8(x.vi)
					}
					for sc := 0; sc < 3; sc++ {
						for _, m := range supp {
							switch sc {
							case 0:
								a[m] = 0
							case 1:
								a[m] = uint8(len(v.Metrics[m].Values) - 1)
							case 2:
								a[m] = uint8(w.R.Intn(len(v.Metrics[m].Values)))
							}
						}
						check(w, a.Clone(), n%NStyles, "all-base")
						n++
					}
					if x.m >= 0 {
						a[x.m] = 0
					}
				}
			}
			nB.Add(int64(n))
			w.Acc[63] += int64(n)
		})
		c.Extra["supplemental_configurations_x_E_x_environmental_cases_x_backgrounds"] = nA.Load()
		c.Extra["base_configurations_x_cases"] = nB.Load()
		c.Floor("supplemental configurations", int64(nSupp), 2160)
		c.Floor("base configurations", int64(nBase), 104976)
	}
	// random assignments in random history styles
	c.Parallel("random", c.Pick(4_000_000, 400_000_000), 4096, func(w *Worker, i int) {
		a := gen.MixedAssign(w.R, v)
		check(w, a, w.R.Intn(NStyles), "random")
		if c.Quick || i&15 == 0 {
			c.Distinct.Add(HashBytes(43, a))
		}
	})
	soleMissing := 0
	for _, m := range opt {
		if c.Counts["sole:"+v.Metrics[m].Abv] == 0 {
			soleMissing++
		}
		delete(c.Counts, "sole:"+v.Metrics[m].Abv)
	}
	c.Floor("optional metrics exercised as the sole defined metric", int64(len(opt)-soleMissing), int64(len(opt)))
	for _, r := range []string{"CVSS-B", "CVSS-BT", "CVSS-BE", "CVSS-BTE"} {
		c.Floor("result "+r, c.Counts["result:"+r], 100)
	}
	c.SetReport(Report{
		Rule:        "oracle from the assignment (T iff E defined; E iff any of CR IR AR MAV..MSA defined). COMPLETE: each of the 21 optional metrics as the sole defined metric x each defined value x 3 base backgrounds x 5 history styles; all-but-one; none/all; every pair of optional metrics x all value pairs; EVERY assignment with at most 4 (thorough: 5) optional metrics defined x all their value combinations; ALL 1,179,648,000 configurations of E and the 14 environmental metrics (the whole space the function can depend on besides base/supplemental metrics, which must not matter), walked in Gray-code order by single Set calls; ALL 2,160 configurations of the supplemental metrics x all values of E x {no environmental metric, each environmental metric alone at each defined value} x 3 base backgrounds; ALL 104,976 base configurations x {E X/defined} x {no / one environmental metric} x {no / last-value / random supplemental metrics}. Sampled: random assignments (uniform, sparse 1/12, sparse 1/3) in random history styles (stale bits from overwritten values). distinct = distinct assignments",
		Exhaustive:  true,
		DistinctN:   c.Acc[63] + c.Distinct.Count(),
		Assumptions: []string{"group membership of each metric per v4.0 specification Table 23", "exhaustive over E x all environmental metrics (every value), over all supplemental configurations and over all base configurations, each against a few settings of the other groups; not the full product of the three"},
	})
	c.Finish()
}
