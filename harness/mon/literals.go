package mon

import (
	"go/ast"
	"go/parser"
	"go/token"
	"os"
	"path/filepath"
	"sort"
	"strconv"
	"strings"

	"verifharness/gen"
	"verifharness/probe"
	"verifharness/spec"
)

// Literal-guided objects (a fuzzer's "dictionary", aimed at the packed representation). The integer literals of the
// tree under test are the masks, bounds and special patterns its code compares the packed bytes with. For every
// literal and every way of laying it over the struct -- its bytes on any increasing subset of the struct's bytes
// (big- and little-endian: gathered words such as u2|u6|u7), or its bits on any contiguous bit window (shifted words
// such as u0<<12|u1<<4|u2>>4) -- the metric values that produce exactly those bits are looked up in the layout learned
// from the running library, and the object is built (the unconstrained metrics at their lowest code, and at random).
// The verdict stays with the ordinary oracles; the literals only say where to look.

type fieldLayout struct {
	nbytes  int
	contrib [][][]byte // [metric][value] -> struct bytes of a zero object with only that value set
	mask    [][]byte   // [metric] -> OR of the contributions
	ok      [][]bool   // value could be set on a zero object
}

func learnLayout(api *probe.API) *fieldLayout {
	v := api.Ver
	z := packedKey(api.New())
	L := &fieldLayout{nbytes: len(z)}
	for _, me := range v.Metrics {
		var cs [][]byte
		var oks []bool
		m := make([]byte, L.nbytes)
		for _, val := range me.Values {
			o := api.New()
			b := make([]byte, L.nbytes)
			good := false
			if err, p := probe.SafeSet(o, me.Abv, val); err == nil && p == nil {
				k := packedKey(o)
				if len(k) == L.nbytes {
					good = true
					for i := range k {
						b[i] = byte(k[i])
						m[i] |= b[i]
					}
				}
			}
			cs = append(cs, b)
			oks = append(oks, good)
		}
		L.contrib = append(L.contrib, cs)
		L.mask = append(L.mask, m)
		L.ok = append(L.ok, oks)
	}
	return L
}

// realise returns an assignment whose packed bytes agree with want on the bits of care (nil if impossible);
// metrics that no cared-for bit touches are left at fill(m).
func (L *fieldLayout) realise(v *spec.Version, want, care []byte, fill func(m int) uint8) spec.Assign {
	a := v.ZeroAssign()
	covered := make([]byte, L.nbytes)
	for m := range v.Metrics {
		touch := false
		for i := 0; i < L.nbytes; i++ {
			covered[i] |= L.mask[m][i]
			if L.mask[m][i]&care[i] != 0 {
				touch = true
			}
		}
		if !touch {
			a[m] = fill(m)
			continue
		}
		found := -1
		for vi := range v.Metrics[m].Values {
			if !L.ok[m][vi] {
				continue
			}
			match := true
			for i := 0; i < L.nbytes; i++ {
				bits := L.mask[m][i] & care[i]
				if L.contrib[m][vi][i]&bits != want[i]&bits {
					match = false
					break
				}
			}
			if match {
				found = vi
				break
			}
		}
		if found < 0 {
			return nil
		}
		a[m] = uint8(found)
	}
	// a bit that must be 1 but belongs to no metric cannot be produced
	for i := 0; i < L.nbytes; i++ {
		if want[i]&care[i]&^covered[i] != 0 {
			return nil
		}
	}
	return a
}

// harvestLiterals collects the integer literals (2 <= x < 2^64) of the non-test Go files under dir.
func harvestLiterals(dir string) []uint64 {
	set := map[uint64]bool{}
	filepath.Walk(dir, func(p string, info os.FileInfo, err error) error {
		if err != nil || info.IsDir() || !strings.HasSuffix(p, ".go") || strings.HasSuffix(p, "_test.go") {
			return nil
		}
		f, err := parser.ParseFile(token.NewFileSet(), p, nil, 0)
		if err != nil {
			return nil
		}
		ast.Inspect(f, func(n ast.Node) bool {
			if bl, ok := n.(*ast.BasicLit); ok && bl.Kind == token.INT {
				if x, err := strconv.ParseUint(strings.ReplaceAll(bl.Value, "_", ""), 0, 64); err == nil && x >= 2 {
					set[x] = true
				}
			}
			return true
		})
		return nil
	})
	out := make([]uint64, 0, len(set))
	for x := range set {
		out = append(out, x)
	}
	sort.Slice(out, func(i, j int) bool { return out[i] < out[j] })
	return out
}

var verDir = map[int]string{spec.V20: "20", spec.V30: "30", spec.V31: "31", spec.V40: "40"}

// literalAssigns builds the literal-guided objects of one version (at most limit of them, de-duplicated).
func literalAssigns(api *probe.API, limit int) (out []spec.Assign, nLits int) {
	root := os.Getenv("VERIF_REPO")
	if root == "" {
		return nil, 0
	}
	v := api.Ver
	lits := harvestLiterals(filepath.Join(root, verDir[v.ID]))
	nLits = len(lits)
	if nLits == 0 {
		return nil, 0
	}
	L := learnLayout(api)
	N := L.nbytes
	r := gen.New(1, "literal-guided", v.Name)
	seen := map[string]bool{}
	emit := func(want, care []byte) {
		for _, mode := range []int{0, 1} {
			a := L.realise(v, want, care, func(m int) uint8 {
				if mode == 0 {
					// lowest code of the metric
					for vi := range v.Metrics[m].Values {
						if L.ok[m][vi] {
							zero := true
							for _, b := range L.contrib[m][vi] {
								if b != 0 {
									zero = false
								}
							}
							if zero {
								return uint8(vi)
							}
						}
					}
					return 0
				}
				return uint8(r.Intn(len(v.Metrics[m].Values)))
			})
			if a == nil {
				return
			}
			k := string(a)
			if !seen[k] && len(out) < limit {
				seen[k] = true
				out = append(out, a)
			}
		}
	}
	for _, x := range lits {
		// bytes of the literal, most significant first
		var lb []byte
		for y := x; y > 0; y >>= 8 {
			lb = append([]byte{byte(y)}, lb...)
		}
		k := len(lb)
		if k <= N {
			// every increasing subset of k byte positions, both byte orders
			idx := make([]int, k)
			var rec func(pos, start int)
			rec = func(pos, start int) {
				if pos == k {
					for _, rev := range []bool{false, true} {
						want, care := make([]byte, N), make([]byte, N)
						for j, p := range idx {
							b := lb[j]
							if rev {
								b = lb[k-1-j]
							}
							want[p], care[p] = b, 0xFF
						}
						emit(want, care)
						if k == 1 {
							break
						}
					}
					return
				}
				for p := start; p <= N-(k-pos); p++ {
					idx[pos] = p
					rec(pos+1, p+1)
				}
			}
			rec(0, 0)
		}
		// the significant bits of the literal on every contiguous bit window of the struct
		nb := 0
		for y := x; y > 0; y >>= 1 {
			nb++
		}
		for off := 0; off+nb <= 8*N; off++ {
			want, care := make([]byte, N), make([]byte, N)
			for j := 0; j < nb; j++ {
				bit := byte(x >> uint(nb-1-j) & 1)
				p := off + j
				care[p/8] |= 0x80 >> uint(p%8)
				if bit == 1 {
					want[p/8] |= 0x80 >> uint(p%8)
				}
			}
			emit(want, care)
		}
	}
	return out, nLits
}

// harvestStrings collects the string literals (length >= 2, at most 400 bytes) of the non-test Go files under dir.
func harvestStrings(dir string) []string {
	set := map[string]bool{}
	filepath.Walk(dir, func(p string, info os.FileInfo, err error) error {
		if err != nil {
			return nil
		}
		if info.IsDir() {
			if n := info.Name(); n == ".git" || n == "testdata" || n == "res" || n == "differential" {
				return filepath.SkipDir
			}
			return nil
		}
		if !strings.HasSuffix(p, ".go") || strings.HasSuffix(p, "_test.go") {
			return nil
		}
		f, err := parser.ParseFile(token.NewFileSet(), p, nil, 0)
		if err != nil {
			return nil
		}
		ast.Inspect(f, func(n ast.Node) bool {
			if bl, ok := n.(*ast.BasicLit); ok && bl.Kind == token.STRING {
				if x, err := strconv.Unquote(bl.Value); err == nil && len(x) >= 2 && len(x) <= 400 {
					set[x] = true
				}
			}
			return true
		})
		return nil
	})
	out := make([]string, 0, len(set))
	for x := range set {
		out = append(out, x)
	}
	sort.Strings(out)
	return out
}

// literalStrings lays every string literal of the tree under test around valid vectors of every version: alone,
// behind each header, behind / in front of a base-only and a fully populated vector (with and without a '/').
// A suffix, prefix or infix the code compares its input with is spelled out in its source.
func literalStrings() (out []string, nLits int) {
	root := os.Getenv("VERIF_REPO")
	if root == "" {
		return nil, 0
	}
	lits := harvestStrings(root)
	nLits = len(lits)
	r := gen.New(1, "literal-strings")
	for _, v := range spec.Versions {
		base := v.Canonical(v.ZeroAssign())
		full := v.Canonical(gen.Background(r, v, 1))
		_, el := gen.SplitElems(v, base)
		body := strings.Join(el, "/")
		for _, L := range lits {
			out = append(out, base+L, base+"/"+L, full+L, full+"/"+L, v.Header+L, v.Header+L+"/"+body, L+base, L+"/"+base)
			if strings.HasPrefix(L, "/") {
				// a tail that starts with '/': also behind every other version's header over this body
				for _, o := range spec.Versions {
					if o.Header != "" && o.Header != v.Header {
						out = append(out, o.Header+body+L)
					}
				}
			}
		}
	}
	for _, L := range lits {
		out = append(out, L)
	}
	return out, nLits
}
