package mon

import (
	"sort"
	"strconv"
	"strings"
	"sync"

	"verifharness/probe"
	"verifharness/spec"
)

// Corner objects of the PACKED representation. The library stores each metric as a small code; which value has the
// highest code is not part of the specification (it is neither the first nor the last value of the spec's lists), but
// it is observable: set each value on a zero object and look at the struct (%v). A bound, a lexicographic compare or
// a saturating test on the packed bytes goes wrong exactly where every field holds its highest (or lowest) code --
// a conjunction of 11 to 32 specific values that no sampling reaches.

var (
	cornerMu    sync.Mutex
	cornerCache = map[int][]spec.Assign{}
	cornerNote  = map[int]string{}
)

func packedKey(o probe.Obj) []int {
	f := strings.FieldsFunc(o.Bytes(), func(r rune) bool { return r < '0' || r > '9' })
	k := make([]int, len(f))
	for i, x := range f {
		k[i], _ = strconv.Atoi(x)
	}
	return k
}

func lessKey(a, b []int) bool {
	for i := range a {
		if i >= len(b) {
			return false
		}
		if a[i] != b[i] {
			return a[i] < b[i]
		}
	}
	return len(a) < len(b)
}

// codeOrder returns, per metric, its value indexes ordered by packed code (learned from the running library).
func codeOrder(api *probe.API) [][]int {
	v := api.Ver
	out := make([][]int, v.N())
	for m, me := range v.Metrics {
		type kv struct {
			vi  int
			key []int
		}
		var l []kv
		for vi, val := range me.Values {
			o := api.New()
			if err, p := probe.SafeSet(o, me.Abv, val); err != nil || p != nil {
				continue
			}
			l = append(l, kv{vi, packedKey(o)})
		}
		sort.SliceStable(l, func(i, j int) bool { return lessKey(l[i].key, l[j].key) })
		for _, x := range l {
			out[m] = append(out[m], x.vi)
		}
		if len(out[m]) == 0 {
			out[m] = []int{0}
		}
	}
	return out
}

// cornerAssigns returns the highest-code and lowest-code objects of a version with every assignment that differs
// from them in one metric (every value) or in two metrics (every pair of values).
func cornerAssigns(api *probe.API) []spec.Assign {
	cornerMu.Lock()
	defer cornerMu.Unlock()
	v := api.Ver
	if l, ok := cornerCache[v.ID]; ok {
		return l
	}
	ord := codeOrder(api)
	hi, lo := v.ZeroAssign(), v.ZeroAssign()
	for m := range v.Metrics {
		lo[m] = uint8(ord[m][0])
		hi[m] = uint8(ord[m][len(ord[m])-1])
	}
	cornerNote[v.ID] = "highest codes: " + v.Canonical(hi) + " ; lowest codes: " + v.Canonical(lo)
	var out []spec.Assign
	for _, c := range []spec.Assign{hi, lo} {
		out = append(out, c.Clone())
		n := v.N()
		for m1 := 0; m1 < n; m1++ {
			for v1 := range v.Metrics[m1].Values {
				if uint8(v1) == c[m1] {
					continue
				}
				a := c.Clone()
				a[m1] = uint8(v1)
				out = append(out, a)
				for m2 := m1 + 1; m2 < n; m2++ {
					for v2 := range v.Metrics[m2].Values {
						if uint8(v2) == c[m2] {
							continue
						}
						b := a.Clone()
						b[m2] = uint8(v2)
						out = append(out, b)
					}
				}
			}
		}
	}
	lit, nl := literalAssigns(api, 60000)
	out = append(out, lit...)
	cornerNote[v.ID] += " ; literal-guided objects: " + strconv.Itoa(len(lit)) + " from " + strconv.Itoa(nl) + " integer literals of the tree"
	cornerCache[v.ID] = out
	return out
}
