package mon

import (
	"fmt"
	"math"
	"strconv"
	"sync/atomic"

	"verifharness/gen"
	"verifharness/probe"
	"verifharness/spec"
)

// tenth converts a result to integer tenths; exact reports r == float64(k)/10.
func tenth(r float64) (k int, exact bool) {
	if math.IsNaN(r) || math.IsInf(r, 0) {
		return 0, false
	}
	k = int(math.Round(r * 10))
	return k, r == float64(k)/10
}

// safeF is Score(i) for evidence samples only: a panic there must not take the harness down (the checks report it).
func safeF(o probe.Obj, i int) float64 {
	f, _ := probe.SafeScore(o, i)
	return f
}

func fstr(f float64) string { return strconv.FormatFloat(f, 'g', -1, 64) }

// styleFor picks the history style of sweep case i: mostly the cheap Set-in-order, every 16th another style.
func styleFor(i int) int {
	if i&15 == 0 {
		return (i >> 4) % NStyles
	}
	return HSetInOrder
}

// buildOrViolate builds the object or records the refusal.
func buildOrViolate(c *Ctx, w *Worker, api *probe.API, a spec.Assign, st int) (probe.Obj, func() []Step) {
	saved := *w.R
	o, fail := Build(api, a, st, w.R, nil)
	steps := func() []Step { return BuildRecorded(api, a, st, saved) }
	if fail != "" {
		c.Violate(Violation{Kind: "cannot-build-object", Version: api.Ver.Name, Steps: steps(), Expected: "public API realises " + api.Ver.Canonical(a), Observed: fail})
		return nil, nil
	}
	return o, steps
}

type bitset struct{ w []atomic.Uint64 }

func newBitset(n int) *bitset { return &bitset{w: make([]atomic.Uint64, (n+63)/64)} }
func (b *bitset) set(i int) {
	m := uint64(1) << (uint(i) & 63)
	for {
		old := b.w[i>>6].Load()
		if old&m != 0 || b.w[i>>6].CompareAndSwap(old, old|m) {
			return
		}
	}
}
func (b *bitset) count() int64 {
	var n int64
	for i := range b.w {
		x := b.w[i].Load()
		for x != 0 {
			x &= x - 1
			n++
		}
	}
	return n
}

// ---------------------------------------------------------------- C03

// v3Check compares all five scoring methods of o with the exact model for assignment a.
func v3Check(c *Ctx, w *Worker, api *probe.API, m *spec.V3Model, o probe.Obj, a spec.Assign, steps func() []Step, classes *bitset) {
	r := m.Score(a)
	v := api.Ver
	if classes != nil {
		classes.set(r.EffClass)
	}
	sets := [3]spec.Tenths{r.Base, r.Temporal, r.Env}
	for i := 0; i < 3; i++ {
		w.Enter(api.ScoreNames[i], "")
		f, p := probe.SafeScore(o, i)
		w.Leave()
		w.Eval()
		if p != nil {
			c.Violate(Violation{Kind: "score-panic", Version: v.Name, Steps: append(steps(), Step{Op: "score"}), Expected: api.ScoreNames[i] + " returns", Observed: p.Val})
			return
		}
		k, exact := tenth(f)
		if !exact || !sets[i].Has(k) {
			want := ""
			for j := 0; j < sets[i].N; j++ {
				want += fmt.Sprintf("%.1f ", float64(sets[i].K[j])/10)
			}
			c.Violate(Violation{Kind: "wrong-score", Version: v.Name, Steps: append(steps(), Step{Op: "score"}), Expected: api.ScoreNames[i] + " = " + want + "for " + v.Canonical(a), Observed: fstr(f), Detail: map[string]any{"method": api.ScoreNames[i]}})
			return
		}
		if sets[i].N > 1 {
			w.Count("ambiguous-roundings")
		}
	}
	imp, p1 := probe.SafeScore(o, 3)
	exp, p2 := probe.SafeScore(o, 4)
	w.EvalN(2)
	if p1 != nil || p2 != nil || math.Abs(imp-r.Impact) > 1e-9 || math.Abs(exp-r.Expl) > 1e-9 {
		c.Violate(Violation{Kind: "wrong-subscore", Version: v.Name, Steps: append(steps(), Step{Op: "score"}), Expected: fmt.Sprintf("Impact %s Exploitability %s (+-1e-9)", fstr(r.Impact), fstr(r.Expl)), Observed: fmt.Sprintf("%s %s %v %v", fstr(imp), fstr(exp), p1, p2)})
		return
	}
	if r.MISSCapped {
		w.Count("miss-capped-0.915")
	}
	if r.ModImpactNonPos {
		w.Count("modified-impact<=0")
	}
	if r.Capped10 {
		w.Count("capped-at-10")
	}
	w.counts["envscore-hist-"+strconv.Itoa(r.Env.K[0]/10)]++
}

// v3Rescore: score -> Set one metric -> score again on the SAME object, judged by the oracle for the
// new values (a memo / cache keyed on too little would return the previous result).
func v3Rescore(c *Ctx, w *Worker, api *probe.API, m *spec.V3Model, o probe.Obj, a spec.Assign, steps func() []Step) {
	v := api.Ver
	mi := w.R.Intn(v.N())
	vi := w.R.Intn(len(v.Metrics[mi].Values))
	if err, p := probe.SafeSet(o, v.Metrics[mi].Abv, v.Metrics[mi].Values[vi]); err != nil || p != nil {
		return // C07/C09 judge Set itself
	}
	b := a.Clone()
	b[mi] = uint8(vi)
	st := func() []Step {
		return append(steps(), Step{Op: "score"}, Step{Op: "set", S: v.Metrics[mi].Abv, Val: v.Metrics[mi].Values[vi]})
	}
	v3Check(c, w, api, m, o, b, st, nil)
	w.Count("rescored-after-Set")
}

// v3ClassAssign maps class index i (0..16,588,799) to an assignment with Modified metrics X.
func v3ClassAssign(i int) spec.Assign {
	a := make(spec.Assign, 22)
	for m, n := range [14]int{4, 2, 3, 2, 2, 3, 3, 3, 5, 5, 4, 4, 4, 4} {
		a[m] = uint8(i % n)
		i /= n
	}
	return a
}

func CheckC03(c *Ctx) {
	const nclass = 2592 * 100 * 64
	var classTotal int64
	for _, vid := range []int{spec.V30, spec.V31} {
		api := probe.APIs[vid]
		v := api.Ver
		m := spec.V3(vid)
		c.Extra["oracle_two_valued_cells_v"+v.Name] = m.AmbiguousCells
		classes := newBitset(nclass * 1)
		// (1) class-exhaustive sweep; the effective values are carried by the base metrics (Modified X), by all eight
		// Modified metrics written explicitly over a random decoy base, or by a random mixture (quick: one seeded mode
		// per class; thorough: three passes, one per mode)
		passes := c.Pick(1, 3)
		for pass := 0; pass < passes; pass++ {
			pass := pass
			c.Parallel(fmt.Sprintf("classes-%s-pass%d", v.Name, pass), nclass, 1<<15, func(w *Worker, i int) {
				a := v3ClassAssign(i)
				mode := pass
				if c.Quick {
					mode = w.R.Intn(3)
				}
				if mode != 0 {
					for k := 0; k < 8; k++ {
						if mode == 1 || w.R.Bool() {
							a[14+k] = a[k] + 1
							a[k] = uint8(w.R.Intn(len(v.Metrics[k].Values)))
						}
					}
				}
				w.counts["realised:"+[]string{"through-base", "through-Modified", "mixed"}[mode]]++
				o, steps := buildOrViolate(c, w, api, a, styleFor(i))
				if o == nil {
					return
				}
				v3Check(c, w, api, m, o, a, steps, classes)
				if i&7 == 3 {
					v3Rescore(c, w, api, m, o, a, steps)
				}
				if i%1000003 == 0 {
					w.Sample(map[string]any{"version": v.Name, "vector": v.Canonical(a), "base": safeF(o, 0), "temporal": safeF(o, 1), "environmental": safeF(o, 2)})
				}
			})
		}
		// (2) cover over Modified metrics: each Modified value x each base value of the same metric x 3 backgrounds x both scopes
		type mc struct{ mod, mv, bv, bg, s int }
		var list []mc
		for mi, me := range v.Metrics {
			if me.BaseOf < 0 {
				continue
			}
			for mv := range me.Values {
				for bv := range v.Metrics[me.BaseOf].Values {
					for bg := 0; bg < 3; bg++ {
						for s := 0; s < 2; s++ {
							list = append(list, mc{mi, mv, bv, bg, s})
						}
					}
				}
			}
		}
		c.Parallel("modified-cover-"+v.Name, len(list), 16, func(w *Worker, i int) {
			x := list[i]
			a := gen.Background(w.R, v, x.bg)
			a[v.Index("S")] = uint8(x.s)
			a[x.mod] = uint8(x.mv)
			a[v.Metrics[x.mod].BaseOf] = uint8(x.bv)
			for st := 0; st < NStyles; st++ {
				o, steps := buildOrViolate(c, w, api, a, st)
				if o == nil {
					return
				}
				v3Check(c, w, api, m, o, a, steps, nil)
			}
			w.Count("modified-cover-cases")
		})
		{
			list := cornerAssigns(api)
			c.Parallel("packed-corners-"+v.Name, len(list), 64, func(w *Worker, i int) {
				o, steps := buildOrViolate(c, w, api, list[i], i%NStyles)
				if o != nil {
					v3Check(c, w, api, m, o, list[i], steps, nil)
				}
				w.Count("packed-corner-objects")
			})
		}
		// pairs of objects whose packed bytes collide under a common 32-bit hash (collide.go), scored back to back
		objCollisionPairs(c, api, func(w *Worker, a spec.Assign, i int) {
			if o, steps := buildOrViolate(c, w, api, a, HParseCanonical); o != nil {
				v3Check(c, w, api, m, o, a, steps, nil)
			}
		})
		// (2b) COMPLETE: every assignment with at most 3 (thorough: 4) optional metrics defined x all their values
		{
			subsets := gen.SparseSubsets(v, c.Pick(3, 4))
			c.Parallel("at-most-k-defined-"+v.Name, len(subsets), 1, func(w *Worker, i int) {
				base := gen.KSparseAssign(w.R, v, 0)
				n := 0
				gen.EnumSubsetValues(v, base, subsets[i], func(a spec.Assign) {
					aa := a.Clone()
					o, steps := buildOrViolate(c, w, api, aa, n%NStyles)
					if o != nil {
						v3Check(c, w, api, m, o, aa, steps, nil)
					}
					n++
				})
				w.CountN("objects-with-at-most-k-optional-metrics-defined", int64(n))
			})
		}
		// (2c) COMPLETE over WHICH Modified metrics are defined: each of the 256 subsets x seeded random
		// assignments (Modified metrics outside the subset forced to X, inside forced to a defined value)
		perSub := c.Pick(1500, 30000)
		c.Parallel("modified-subsets-"+v.Name, 256*perSub, 1<<12, func(w *Worker, i int) {
			mask := i % 256
			a := gen.RandomAssign(w.R, v)
			for k := 0; k < 8; k++ {
				mi := 14 + k
				if mask>>k&1 == 1 {
					a[mi] = uint8(1 + w.R.Intn(len(v.Metrics[mi].Values)-1))
				} else {
					a[mi] = 0
				}
			}
			o, steps := buildOrViolate(c, w, api, a, styleFor(i))
			if o == nil {
				return
			}
			v3Check(c, w, api, m, o, a, steps, classes)
			w.Count("objects-by-modified-subset")
		})
		// (3) random overlays: a random subset of the 8 Modified metrics defined
		c.Parallel("overlay-"+v.Name, c.Pick(3_000_000, 200_000_000), 1<<13, func(w *Worker, i int) {
			a := gen.RandomAssign(w.R, v)
			for mi, me := range v.Metrics {
				if me.BaseOf >= 0 && w.R.Bool() {
					a[mi] = 0
				}
			}
			o, steps := buildOrViolate(c, w, api, a, w.R.Intn(NStyles))
			if o == nil {
				return
			}
			v3Check(c, w, api, m, o, a, steps, classes)
			if i&3 == 1 {
				v3Rescore(c, w, api, m, o, a, steps)
			}
			w.Count("overlay-objects")
			if i%500009 == 0 {
				w.Sample(map[string]any{"version": v.Name, "vector": v.Canonical(a), "environmental": safeF(o, 2)})
			}
		})
		n := classes.count()
		c.Extra["effective_classes_seen_v"+v.Name] = n
		c.Floor("effective classes v"+v.Name, n, nclass)
		classTotal += n
	}
	c.Extra["effective_classes_per_version"] = nclass
	c.SetReport(Report{
		Rule:        "exact-rational model of the v3.0/v3.1 equations (math/big; Roundup per v3.1 Appendix A on the exact value, v3.0 also accepts the plain ceiling where they differ -- 0 such cells exist). COMPLETE: all 2,592 base x 100 E/RL/RC x 64 CR/IR/AR = 16,588,800 effective classes per version, each realised on a real object (Set-in-order; every 16th in one of the other four history styles) with the effective values carried by the base metrics, by all eight Modified metrics over a random decoy base, or by a random mixture (quick: one seeded mode per class; thorough: all three), all five scoring methods compared (sub-scores +-1e-9). Plus a complete Modified-metric cover (each Modified value x each base value x 3 backgrounds x 2 scopes x 5 styles) and random overlays with a random subset of Modified metrics defined. distinct = effective classes reached (bitset), both versions summed",
		Exhaustive:  true,
		DistinctN:   classTotal,
		Assumptions: []string{"weights and equations transcribed in harness/spec/score_v3.go from the FIRST v3.0/v3.1 specification documents", "exhaustive over effective classes; the raw space (5.7e11) is covered by classes + sampled overlays"},
	})
	c.Finish()
}

// ---------------------------------------------------------------- C05

func CheckC05(c *Ctx) {
	api := probe.APIs[spec.V20]
	v := api.Ver
	m := spec.V2()
	c.Extra["oracle_tie_cells"] = m.TieCells
	const total = 139968000
	var seen atomic.Int64
	check := func(w *Worker, a spec.Assign, st int, i int) {
		o, steps := buildOrViolate(c, w, api, a, st)
		if o == nil {
			return
		}
		r := m.Score(a)
		sets := [3]spec.KSet{r.Base, r.Temporal, r.Env}
		for k := 0; k < 3; k++ {
			w.Enter(api.ScoreNames[k], "")
			f, p := probe.SafeScore(o, k)
			w.Leave()
			w.Eval()
			if p != nil {
				c.Violate(Violation{Kind: "score-panic", Version: v.Name, Steps: append(steps(), Step{Op: "score"}), Expected: api.ScoreNames[k] + " returns", Observed: p.Val})
				return
			}
			kk, exact := tenth(f)
			if !exact || !sets[k].Has(kk) {
				c.Violate(Violation{Kind: "wrong-score", Version: v.Name, Steps: append(steps(), Step{Op: "score"}), Expected: fmt.Sprintf("%s in %v (tenths) for %s", api.ScoreNames[k], sets[k].List(), v.Canonical(a)), Observed: fstr(f), Detail: map[string]any{"method": api.ScoreNames[k]}})
				return
			}
			if kk < 0 {
				w.Count("negative-results")
				for {
					cur := minTenth.Load()
					if int64(kk) >= cur || minTenth.CompareAndSwap(cur, int64(kk)) {
						break
					}
				}
			}
		}
		if r.Tie {
			w.Count("objects-with-exact-tie-in-oracle")
		}
		imp, p1 := probe.SafeScore(o, 3)
		exp, p2 := probe.SafeScore(o, 4)
		w.EvalN(2)
		if p1 != nil || p2 != nil || math.Abs(imp-r.Impact) > 1e-9 || math.Abs(exp-r.Expl) > 1e-9 {
			c.Violate(Violation{Kind: "wrong-subscore", Version: v.Name, Steps: append(steps(), Step{Op: "score"}), Expected: fmt.Sprintf("Impact %s Exploitability %s (+-1e-9)", fstr(r.Impact), fstr(r.Expl)), Observed: fmt.Sprintf("%s %s", fstr(imp), fstr(exp))})
			return
		}
		seen.Add(1)
		if i&7 == 5 && i >= 0 {
			// score -> Set one metric -> score again on the same object, judged by the oracle for the new values
			mi := w.R.Intn(v.N())
			vi := w.R.Intn(len(v.Metrics[mi].Values))
			if err, p := probe.SafeSet(o, v.Metrics[mi].Abv, v.Metrics[mi].Values[vi]); err == nil && p == nil {
				b := a.Clone()
				b[mi] = uint8(vi)
				r2 := m.Score(b)
				for k, set := range [3]spec.KSet{r2.Base, r2.Temporal, r2.Env} {
					f, p := probe.SafeScore(o, k)
					w.Eval()
					if kk, exact := tenth(f); p != nil || !exact || !set.Has(kk) {
						c.Violate(Violation{Kind: "wrong-score-after-set", Version: v.Name, Steps: append(steps(), Step{Op: "score"}, Step{Op: "set", S: v.Metrics[mi].Abv, Val: v.Metrics[mi].Values[vi]}, Step{Op: "score"}),
							Expected: fmt.Sprintf("%s in %v (tenths) for %s", api.ScoreNames[k], set.List(), v.Canonical(b)), Observed: fmt.Sprint(fstr(f), p), Detail: map[string]any{"method": api.ScoreNames[k]}})
						return
					}
				}
				w.Count("rescored-after-Set")
			}
		}
		if i%7000003 == 0 {
			w.Sample(map[string]any{"vector": v.Canonical(a), "base": safeF(o, 0), "temporal": safeF(o, 1), "environmental": safeF(o, 2), "oracle_env_tenths": r.Env.List()})
		}
	}
	// the complete space is cheap enough (~30 s on 16 cores) to be the every-change check
	exhaustive := true
	c.Parallel("all", total, 1<<16, func(w *Worker, i int) { check(w, v2FromIndex(i), styleFor(i), i) })
	if !c.Quick {
		// thorough: a second complete pass with every object built in a seeded random history style
		c.Parallel("all-random-style", total, 1<<16, func(w *Worker, i int) { check(w, v2FromIndex(i), w.R.Intn(NStyles), i+1) })
	}
	var list []spec.Assign
	gen.Cover(c.Rand("cover"), v, true, func(a spec.Assign) { list = append(list, a) })
	c.Parallel("cover", len(list), 64, func(w *Worker, i int) {
		for st := 0; st < NStyles; st++ {
			check(w, list[i], st, i+1)
		}
	})
	// pairs of objects whose packed bytes collide under a common 32-bit hash (collide.go), scored back to back
	objCollisionPairs(c, api, func(w *Worker, a spec.Assign, i int) { check(w, a, HParseCanonical, -1) })
	c.Extra["minimum_result_tenths"] = minTenth.Load()
	c.Extra["space_size"] = total
	c.SetReport(Report{
		Rule:        "exact-rational model of the v2.0 guide equations (section 3.2) with either-neighbour ties propagated through the nested roundings; every object is built through the public API and BaseScore/TemporalScore/EnvironmentalScore must be in the oracle's conforming set, Impact/Exploitability within 1e-9. COMPLETE enumeration of all 139,968,000 assignments in BOTH tiers (Set-in-order, every 16th object in one of the other four history styles; thorough adds a second complete pass in seeded random history styles), plus the pairwise cover in all five history styles. distinct = distinct assignments (enumeration index)",
		Exhaustive:  exhaustive,
		DistinctN:   total,
		Assumptions: []string{"weights/equations transcribed in harness/spec/score_v2.go from the CVSS v2.0 guide"},
	})
	c.Finish()
}

var minTenth atomic.Int64

// ---------------------------------------------------------------- C04

// v4Realise turns an effective class into a full assignment. mode 0: through
// base metrics (S values necessarily through MSI/MSA); 1: through Modified
// metrics over a random decoy base; 2: per-metric random mix. Supplemental
// metrics random; E:A / CR..AR:H randomly spelled as X.
func v4Realise(r *gen.Rand, e spec.V4Eff, mode int) spec.Assign {
	v := spec.Versions[spec.V40]
	a := v.ZeroAssign()
	viaMod := func() bool {
		switch mode {
		case 0:
			return false
		case 1:
			return true
		}
		return r.Bool()
	}
	plain := func(base, mod int, lvl uint8, n int) {
		if viaMod() {
			a[mod] = lvl + 1
			a[base] = uint8(r.Intn(n))
		} else {
			a[base] = lvl
		}
	}
	plain(0, 15, e.AV, 4)
	plain(1, 16, e.AC, 2)
	plain(2, 17, e.AT, 2)
	plain(3, 18, e.PR, 3)
	plain(4, 19, e.UI, 3)
	plain(5, 20, e.VC, 3)
	plain(6, 21, e.VI, 3)
	plain(7, 22, e.VA, 3)
	plain(8, 23, e.SC, 3)
	sis := func(base, mod int, lvl uint8) { // levels S,H,L,N ; base list H L N ; Modified list X S H L N
		if lvl == 0 || viaMod() {
			a[mod] = lvl + 1
			a[base] = uint8(r.Intn(3))
		} else {
			a[base] = lvl - 1
		}
	}
	sis(9, 24, e.SI)
	sis(10, 25, e.SA)
	if e.E == 0 && r.Bool() {
		a[11] = 0
	} else {
		a[11] = e.E + 1
	}
	for k, lvl := range [3]uint8{e.CR, e.IR, e.AR} {
		if lvl == 0 && r.Bool() {
			a[12+k] = 0
		} else {
			a[12+k] = lvl + 1
		}
	}
	for mI := 26; mI < 32; mI++ {
		if r.Bool() {
			a[mI] = uint8(r.Intn(len(v.Metrics[mI].Values)))
		}
	}
	return a
}

// v4RealiseSubset realises class e with EXACTLY the Modified metrics in mask (bit k = k-th overridable
// metric AV AC AT PR UI VC VI VA SC SI SA) carrying the effective value and a random decoy base underneath;
// the others through the base metric. SI/SA = S needs the Modified metric: ok=false if the mask excludes it.
func v4RealiseSubset(r *gen.Rand, e spec.V4Eff, mask int) (spec.Assign, bool) {
	v := spec.Versions[spec.V40]
	a := v.ZeroAssign()
	lv := [11]uint8{e.AV, e.AC, e.AT, e.PR, e.UI, e.VC, e.VI, e.VA, e.SC, e.SI, e.SA}
	nvals := [11]int{4, 2, 2, 3, 3, 3, 3, 3, 3, 3, 3}
	for k := 0; k < 11; k++ {
		via := mask>>k&1 == 1
		base, mod := k, 15+k
		if k >= 9 { // SI, SA: levels S,H,L,N
			if via {
				a[mod] = lv[k] + 1
				a[base] = uint8(r.Intn(3))
			} else {
				if lv[k] == 0 {
					return nil, false
				}
				a[base] = lv[k] - 1
			}
			continue
		}
		if via {
			a[mod] = lv[k] + 1
			a[base] = uint8(r.Intn(nvals[k]))
		} else {
			a[base] = lv[k]
		}
	}
	a[11] = e.E + 1
	if e.E == 0 && r.Bool() {
		a[11] = 0
	}
	for k, lvl := range [3]uint8{e.CR, e.IR, e.AR} {
		a[12+k] = lvl + 1
		if lvl == 0 && r.Bool() {
			a[12+k] = 0
		}
	}
	return a, true
}

type v4stats struct {
	mv    *bitset
	lower [6]atomic.Int64
	eq36  [5]atomic.Int64
}

func v4Check(c *Ctx, w *Worker, api *probe.API, a spec.Assign, st int, stats *v4stats, sample bool) {
	v := api.Ver
	e := spec.V4Effective(a)
	r := spec.V4Score(e)
	o, steps := buildOrViolate(c, w, api, a, st)
	if o == nil {
		return
	}
	w.Enter("Score", "")
	f, p := probe.SafeScore(o, 0)
	w.Leave()
	w.Eval()
	if p != nil {
		c.Violate(Violation{Kind: "score-panic", Version: v.Name, Steps: append(steps(), Step{Op: "score"}), Expected: "Score returns", Observed: p.Val})
		return
	}
	if f != float64(r.K)/10 {
		d := map[string]any{"macrovector": fmt.Sprint(r.MV), "exact_tie": r.Tie, "no_impact": r.NoImpact}
		c.Violate(Violation{Kind: "wrong-score", Version: v.Name, Steps: append(steps(), Step{Op: "score"}), Expected: fmt.Sprintf("Score = %.1f for %s", float64(r.K)/10, v.Canonical(a)), Observed: fstr(f), Detail: d})
		return
	}
	if stats != nil {
		if !r.NoImpact {
			stats.mv.set(mvIndex(r.MV))
			stats.lower[r.Lower].Add(1)
			stats.eq36[r.EQ36Case].Add(1)
		}
	}
	if r.Tie {
		w.Count("exact-ties-seen(all rounded up)")
	}
	if r.NoImpact {
		base := a[5] == 2 && a[6] == 2 && a[7] == 2 && a[8] == 2 && a[9] == 2 && a[10] == 2
		if base {
			w.Count("no-impact:base-all-N")
		} else {
			w.Count("no-impact:only-through-Modified")
		}
	} else if a[5] == 2 && a[6] == 2 && a[7] == 2 && a[8] == 2 && a[9] == 2 && a[10] == 2 {
		w.Count("impact-only-through-Modified(base all N)")
	}
	if sample {
		w.Sample(map[string]any{"vector": v.Canonical(a), "score": f, "macrovector": fmt.Sprint(r.MV), "history": StyleNames[st]})
	}
	if w.R.Intn(8) == 0 {
		// score -> Set one metric -> score again on the same object, judged by the oracle for the new values
		mi := w.R.Intn(v.N())
		vi := w.R.Intn(len(v.Metrics[mi].Values))
		if err, p := probe.SafeSet(o, v.Metrics[mi].Abv, v.Metrics[mi].Values[vi]); err == nil && p == nil {
			b := a.Clone()
			b[mi] = uint8(vi)
			want := spec.V4Score(spec.V4Effective(b))
			f2, p2 := probe.SafeScore(o, 0)
			w.Eval()
			if p2 != nil || f2 != float64(want.K)/10 {
				c.Violate(Violation{Kind: "wrong-score-after-set", Version: v.Name, Steps: append(steps(), Step{Op: "score"}, Step{Op: "set", S: v.Metrics[mi].Abv, Val: v.Metrics[mi].Values[vi]}, Step{Op: "score"}),
					Expected: fmt.Sprintf("Score = %.1f for %s", float64(want.K)/10, v.Canonical(b)), Observed: fmt.Sprint(fstr(f2), p2)})
				return
			}
			w.Count("rescored-after-Set")
		}
	}
}

func mvIndex(mv [6]int) int {
	return ((((mv[0]*2+mv[1])*3+mv[2])*3+mv[3])*3+mv[4])*2 + mv[5]
}

func CheckC04(c *Ctx) {
	api := probe.APIs[spec.V40]
	stats := &v4stats{mv: newBitset(3 * 2 * 3 * 3 * 3 * 2)}
	passes := c.Pick(1, 3)
	for pass := 0; pass < passes; pass++ {
		pass := pass
		c.Parallel(fmt.Sprintf("classes-pass%d", pass), spec.V4ClassCount, 1<<15, func(w *Worker, i int) {
			e := spec.V4ClassFromIndex(i)
			mode := pass
			if c.Quick {
				mode = w.R.Intn(3)
			}
			a := v4Realise(w.R, e, mode)
			if spec.V4Effective(a) != e {
				Broken("v4Realise does not realise class %+v: %v", e, a)
			}
			st := styleFor(i)
			v4Check(c, w, api, a, st, stats, i%1500007 == 0)
			w.counts["realised:"+[]string{"through-base", "through-Modified", "mixed"}[mode]]++
		})
	}
	{
		list := cornerAssigns(api)
		c.Parallel("packed-corners", len(list), 64, func(w *Worker, i int) {
			v4Check(c, w, api, list[i], i%NStyles, stats, false)
			w.Count("packed-corner-objects")
		})
	}
	// pairs of objects whose packed bytes collide under a common 32-bit hash (collide.go), scored back to back
	objCollisionPairs(c, api, func(w *Worker, a spec.Assign, i int) { v4Check(c, w, api, a, HParseCanonical, stats, false) })
	{
		subsets := gen.SparseSubsets(api.Ver, c.Pick(3, 4))
		c.Parallel("at-most-k-defined", len(subsets), 1, func(w *Worker, i int) {
			base := gen.KSparseAssign(w.R, api.Ver, 0)
			n := 0
			gen.EnumSubsetValues(api.Ver, base, subsets[i], func(a spec.Assign) {
				v4Check(c, w, api, a.Clone(), n%NStyles, stats, false)
				n++
			})
			w.CountN("objects-with-at-most-k-optional-metrics-defined", int64(n))
		})
	}
	// COMPLETE over WHICH Modified metrics are defined: each of the 2,048 subsets of the 11 overridable
	// metrics x seeded random effective classes (the rest of the object carried by the base metrics)
	perSubset := c.Pick(300, 6000)
	c.Parallel("modified-subsets", 2048*perSubset, 1<<12, func(w *Worker, i int) {
		mask := i % 2048
		e := spec.V4ClassFromIndex(w.R.Intn(spec.V4ClassCount))
		a, ok := v4RealiseSubset(w.R, e, mask)
		if !ok {
			return
		}
		v4Check(c, w, api, a, styleFor(i), stats, false)
		w.Count("objects-by-modified-subset")
	})
	c.Parallel("raw-random", c.Pick(3_000_000, 150_000_000), 1<<13, func(w *Worker, i int) {
		a := gen.MixedAssign(w.R, api.Ver)
		v4Check(c, w, api, a, w.R.Intn(NStyles), stats, i%300007 == 0)
		w.Count("raw-random-objects")
	})
	// supplemental metrics must not matter: same object with every supplemental value
	c.Parallel("supplemental", c.Pick(20_000, 1_000_000), 256, func(w *Worker, i int) {
		v := api.Ver
		a := gen.RandomAssign(w.R, v)
		o, steps := buildOrViolate(c, w, api, a, HSetInOrder)
		if o == nil {
			return
		}
		f0, _ := probe.SafeScore(o, 0)
		for mI := 26; mI < 32; mI++ {
			for vi, val := range v.Metrics[mI].Values {
				q := o.Clone()
				probe.SafeSet(q, v.Metrics[mI].Abv, val)
				f1, p := probe.SafeScore(q, 0)
				w.Eval()
				if p != nil || f1 != f0 {
					c.Violate(Violation{Kind: "supplemental-metric-changes-score", Version: v.Name, Steps: append(steps(), Step{Op: "set", S: v.Metrics[mI].Abv, Val: val}, Step{Op: "score"}), Expected: fstr(f0), Observed: fmt.Sprint(f1, p)})
					return
				}
				_ = vi
			}
		}
		w.Count("supplemental-sibling-sets")
	})
	mvs := stats.mv.count()
	c.Extra["macrovectors_reached"] = mvs
	c.Floor("MacroVectors reached", mvs, 270)
	lower := map[string]int64{}
	for i := range stats.lower {
		lower[fmt.Sprint(i)] = stats.lower[i].Load()
		if i <= 5 {
			c.Floor(fmt.Sprintf("classes with %d existing next-lower MacroVectors", i), stats.lower[i].Load(), 1)
		}
	}
	c.Extra["classes_by_number_of_lower_macrovectors"] = lower
	eq := map[string]int64{}
	for i, n := range []string{"no-lower(21)", "11->21", "01->11", "10->11", "00->max(01,10)"} {
		eq[n] = stats.eq36[i].Load()
		c.Floor("EQ3/EQ6 branch "+n, stats.eq36[i].Load(), 1)
	}
	c.Extra["eq3eq6_branches"] = eq
	c.Extra["effective_classes"] = spec.V4ClassCount
	c.SetReport(Report{
		Rule:        "exact integer model of the section 8 algorithm (EQ1-EQ6 from Tables 24-29, highest-severity vectors Tables 24-30, depths, mean over existing lower MacroVectors, common denominator 840n, exact half-up); 270-cell lookup table sourced independently (claircore port of the FIRST table). COMPLETE: all 15,116,544 effective classes, each realised on a real object through base metrics / through Modified metrics over a decoy base / mixed (quick: one seeded mode per class; thorough: all three), with random supplemental metrics and X spellings; Score() must EQUAL the oracle (no tolerance). Plus random raw assignments and supplemental-metric sibling sets. distinct = classes x passes",
		Exhaustive:  true,
		DistinctN:   int64(spec.V4ClassCount) * int64(passes),
		Assumptions: []string{"transcription of Tables 24-30 and section 8.2 in harness/spec/score_v4.go", "lookup data file harness/spec/lookup_data.go (independent source, agreed with the repo on all 270 cells when extracted)"},
	})
	c.Finish()
}

// ---------------------------------------------------------------- C11

func CheckC11(c *Ctx) {
	var kseen [spec.NVersions][5]*bitset
	check := func(w *Worker, api *probe.API, a spec.Assign, st int) {
		v := api.Ver
		o, steps := buildOrViolate(c, w, api, a, st)
		if o == nil {
			return
		}
		// an object that has just REFUSED a Set is a reachable object too: every 4th object gets a few
		// failing Sets (illegal values of several kinds, on random metrics) before it is scored
		if w.R.Intn(4) == 0 {
			for k := 0; k < 3; k++ {
				m := w.R.Intn(v.N())
				bad := []string{"X", "ND", "", "x", "Z", "N ", "HH", "S"}[w.R.Intn(8)]
				if v.ValueIndex(m, bad) >= 0 {
					continue
				}
				probe.SafeSet(o, v.Metrics[m].Abv, bad)
				w.Count("objects-scored-after-failed-Set")
			}
		}
		for i := 0; i < api.NRounded; i++ {
			name := api.ScoreNames[i]
			w.Enter(name, "")
			f, p := probe.SafeScore(o, i)
			w.Leave()
			w.Eval()
			st := func() []Step { return append(steps(), Step{Op: "score"}) }
			if p != nil {
				c.Violate(Violation{Kind: "score-panic", Version: v.Name, Steps: st(), Expected: name + " returns", Observed: p.Val})
				return
			}
			k, exact := tenth(f)
			if !exact {
				c.Violate(Violation{Kind: "not-one-decimal", Version: v.Name, Steps: st(), Expected: name + " is the float64 nearest to k/10 (finite)", Observed: fstr(f) + " for " + v.Canonical(a), Detail: map[string]any{"method": name}})
				return
			}
			v2env := v.ID == spec.V20 && i == 2
			if k > 100 || (k < 0 && !v2env) {
				c.Violate(Violation{Kind: "out-of-range", Version: v.Name, Steps: st(), Expected: name + " in [0,10]", Observed: fstr(f) + " for " + v.Canonical(a), Detail: map[string]any{"method": name}})
				return
			}
			if k >= 0 {
				kseen[v.ID][i].set(k)
			}
			if api.Rating != nil {
				rs, err, rp := api.SafeRating(f)
				w.Eval()
				if rp != nil || err != nil || rs == "" {
					c.Violate(Violation{Kind: "rating-rejects-score", Version: v.Name, Steps: append(st(), Step{Op: "rating", F: fstr(f)}), Expected: "Rating accepts " + fstr(f), Observed: fmt.Sprint(rs, err, rp)})
					return
				}
			}
		}
	}
	for vi := range kseen {
		for i := range kseen[vi] {
			kseen[vi][i] = newBitset(101)
		}
	}
	var objs atomic.Int64
	// complete class sweeps (v2's strided in quick)
	{
		api := probe.APIs[spec.V20]
		if c.Quick {
			c.Parallel("v2-base-temporal", 72900, 1<<10, func(w *Worker, i int) { check(w, api, v2FromIndex(i), styleFor(i)); objs.Add(1) })
			off := int(c.Rand("stride").Intn(8))
			c.Parallel("v2-env-strided", 139968000/8, 1<<15, func(w *Worker, i int) { check(w, api, v2FromIndex(i*8+off), styleFor(i)); objs.Add(1) })
		} else {
			c.Parallel("v2-all", 139968000, 1<<16, func(w *Worker, i int) { check(w, api, v2FromIndex(i), styleFor(i)); objs.Add(1) })
		}
	}
	for _, vid := range []int{spec.V30, spec.V31} {
		api := probe.APIs[vid]
		c.Parallel("v3-classes-"+api.Ver.Name, 16588800, 1<<15, func(w *Worker, i int) { check(w, api, v3ClassAssign(i), styleFor(i)); objs.Add(1) })
	}
	{
		api := probe.APIs[spec.V40]
		c.Parallel("v4-classes", spec.V4ClassCount, 1<<15, func(w *Worker, i int) {
			check(w, api, v4Realise(w.R, spec.V4ClassFromIndex(i), w.R.Intn(3)), styleFor(i))
			objs.Add(1)
		})
	}
	// random raw objects
	for _, api := range probe.APIs {
		api := api
		c.Parallel("raw-"+api.Ver.Name, c.Pick(500_000, 100_000_000), 1<<13, func(w *Worker, i int) {
			a := gen.RandomAssign(w.R, api.Ver)
			check(w, api, a, w.R.Intn(NStyles))
			objs.Add(1)
			if i%250007 == 0 {
				w.Sample(map[string]any{"version": api.Ver.Name, "vector": api.Ver.Canonical(a)})
			}
		})
	}
	ks := map[string]int64{}
	for vi, api := range probe.APIs {
		for i := 0; i < api.NRounded; i++ {
			ks["v"+spec.Versions[vi].Name+"."+api.ScoreNames[i]] = kseen[vi][i].count()
		}
	}
	c.Extra["distinct_tenths_seen_per_method(of 101)"] = ks
	c.SetReport(Report{
		Rule:        "arithmetic predicate on every result of every rounded scoring method (v2: 3, v3: 3, v4: 1): finite, r == float64(round(10r))/10, 0 <= k <= 100 (v2 EnvironmentalScore: only k <= 100, as the statement says), Rating accepts it (v3/v4), no panic. Workload: COMPLETE effective-class sweeps of v3.0, v3.1 (16,588,800 each) and v4.0 (15,116,544), v2.0 complete in thorough / 1-in-8 stride + all base x temporal in quick, plus random raw objects in random history styles. distinct = objects (distinct by enumeration index)",
		Exhaustive:  !c.Quick,
		DistinctN:   objs.Load(),
		Assumptions: []string{"no model: pure predicate on observed results"},
	})
	c.Finish()
}
