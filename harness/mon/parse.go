package mon

import (
	"fmt"
	"strings"

	"verifharness/gen"
	"verifharness/probe"
	"verifharness/spec"
)

// StrCase is one generated input string with its provenance.
type StrCase struct {
	S      string
	Origin int    // version whose generator produced it (-1: none)
	Op     string // generator / mutation operator chain
}

// caseSteps is the replayable history of a case: the strings the worker parsed just before it as part of the same
// history-dependent family (w.Pre, set by the generator), then the case itself.
func caseSteps(w *Worker, sc StrCase) []Step {
	var st []Step
	for _, p := range w.Pre {
		st = append(st, Step{Op: "parse", S: p})
	}
	return append(st, Step{Op: "parse", S: sc.S})
}

// PerVer is what was observed / expected for one (string, version) pair.
type PerVer struct {
	Obj      probe.Obj
	Err      error
	Panic    *probe.Panic
	OK       bool // recogniser verdict
	Assign   spec.Assign
	Explicit []bool
}

// offer runs s through all four parsers and the four recognisers.
func offer(w *Worker, s string) (res [spec.NVersions]PerVer) {
	for vi, api := range probe.APIs {
		r := &res[vi]
		w.Enter("ParseVector v"+api.Ver.Name, s)
		r.Obj, r.Err, r.Panic = api.SafeParse(s)
		w.Leave()
		r.OK, r.Assign, r.Explicit = api.Ver.Recognise(s)
	}
	return
}

// anchors returns k well-formed vectors of version v chosen to span the
// grammar: shortest, longest, each group shape, then seeded random ones.
func anchors(r *gen.Rand, v *spec.Version, k int) []string {
	var out []string
	min := v.ZeroAssign()
	out = append(out, v.Canonical(min))
	full := gen.Background(r, v, 1)
	out = append(out, v.Canonical(full))
	if v.ID == spec.V20 {
		t := v.ZeroAssign()
		t[6], t[7], t[8] = 2, 1, 3
		out = append(out, v.Canonical(t))
		e := v.ZeroAssign()
		e[9], e[10], e[11], e[12], e[13] = 3, 1, 2, 1, 3
		out = append(out, v.Canonical(e))
	}
	if v.ID == spec.V40 {
		u := gen.Background(r, v, 1)
		u[v.Index("U")] = 1 // Clear
		out = append(out, v.Canonical(u))
	}
	for len(out) < k {
		a := gen.SparseAssign(r, v, 1+r.Intn(3), 4)
		s, _ := gen.RandomSpelling(r, v, a)
		out = append(out, s)
	}
	return out[:k]
}

// explicitCopy writes every Modified metric of a that is not defined as an explicit copy of the (same-named) value
// of the base metric it overrides.
func explicitCopy(v *spec.Version, a spec.Assign) {
	for m, me := range v.Metrics {
		if me.BaseOf < 0 || a[m] != 0 {
			continue
		}
		want := v.Metrics[me.BaseOf].Values[a[me.BaseOf]]
		for vi, val := range me.Values {
			if val == want {
				a[m] = uint8(vi)
			}
		}
	}
}

// neighbourhood enumerates the complete edit-distance-1 neighbourhood of s
// over gen.Alphabet, plus all proper prefixes and suffixes.
func neighbourhood(s string, f func(t, op string)) {
	b := []byte(s)
	for i := range b {
		f(string(append(append([]byte{}, b[:i]...), b[i+1:]...)), "nb-delete")
		for _, c := range gen.Alphabet {
			if c != b[i] {
				t := append([]byte{}, b...)
				t[i] = c
				f(string(t), "nb-replace")
			}
		}
	}
	for i := 0; i <= len(b); i++ {
		for _, c := range gen.Alphabet {
			t := append(append(append([]byte{}, b[:i]...), c), b[i:]...)
			f(string(t), "nb-insert")
		}
	}
	for i := 0; i < len(b); i++ {
		f(s[:i], "nb-prefix")
		if i > 0 {
			f(s[i:], "nb-suffix")
		}
	}
	// every byte replaced by a multi-byte rune that a narrowing conversion, a case fold or a "is this letter"
	// table could take for it: code points with the same low byte (U+01xx, U+02xx, U+2Cxx, U+104xx), the
	// full-width form, the Kelvin sign / long s / dotless i style case-fold partners, and the byte itself behind a
	// UTF-8 lead byte (over-long 2-byte form)
	for i := range b {
		c := b[i]
		tw := []string{string(rune(0x100 + int(c))), string(rune(0x200 + int(c))), string(rune(0x2C00 + int(c))), string(rune(0x10400 + int(c))),
			string([]byte{0xC0 | c>>6, 0x80 | c&0x3F})}
		if c > 0x20 && c < 0x7F {
			tw = append(tw, string(rune(0xFF00+int(c)-0x20)))
		}
		switch c {
		case 'K', 'k':
			tw = append(tw, "\u212a")
		case 'S', 's':
			tw = append(tw, "\u017f")
		case 'I', 'i':
			tw = append(tw, "\u0131", "\u0130")
		}
		for _, t := range tw {
			f(s[:i]+t+s[i+1:], "nb-rune-twin")
		}
	}
	// adjacent transpositions
	for i := 0; i+1 < len(b); i++ {
		if b[i] != b[i+1] {
			t := append([]byte{}, b...)
			t[i], t[i+1] = t[i+1], t[i]
			f(string(t), "nb-transpose")
		}
	}
}

// StreamCfg sizes a parse stream.
type StreamCfg struct {
	Anchors   int // per version, with complete neighbourhoods
	Random    int // random cases per version (valid -> mutated / soup / bytes)
	ValidBias int // out of 100: share of random cases that stay well-formed spellings
	Cover     bool
}

// RunStream drives the whole string workload; handle is called for every
// generated string with the observations for all four versions.
func RunStream(c *Ctx, cfg StreamCfg, handle func(w *Worker, sc StrCase, res *[spec.NVersions]PerVer)) {
	do := func(w *Worker, sc StrCase) {
		res := offer(w, sc.S)
		w.EvalN(spec.NVersions)
		c.Distinct.Add(HashString(sc.S))
		w.Count("strings")
		w.Count("gen:" + sc.Op)
		if len(sc.S) > 0 && !isASCII(sc.S) {
			w.Count("strings-non-ascii")
		}
		handle(w, sc, &res)
	}
	// (a) covering sets of well-formed vectors, canonical and spelled
	if cfg.Cover {
		for vi, v := range spec.Versions {
			var list []spec.Assign
			gen.Cover(c.Rand("cover", v.Name), v, !c.Quick || v.ID == spec.V20, func(a spec.Assign) { list = append(list, a) })
			vi := vi
			v := v
			c.Parallel("cover-"+v.Name, len(list), 256, func(w *Worker, i int) {
				do(w, StrCase{v.Canonical(list[i]), vi, "cover-canonical"})
				s, _ := gen.RandomSpelling(w.R, v, list[i])
				do(w, StrCase{s, vi, "cover-spelled"})
			})
		}
	}
	// (a2) COMPLETE set of base-only vectors of every version (729 / 2,592 / 2,592 / 104,976), under
	// their own header and, for v3, under the sibling 3.x header: the "everyday" vectors a lookup
	// table, fast path or cache would special-case
	if cfg.Cover {
		for vi, v := range spec.Versions {
			vi, v := vi, v
			nb := 0
			total := 1
			for _, me := range v.Metrics {
				if me.Mandatory {
					nb++
					total *= len(me.Values)
				}
			}
			c.Parallel("base-complete-"+v.Name, total, 1024, func(w *Worker, i int) {
				a := v.ZeroAssign()
				k := i
				for m := 0; m < nb; m++ {
					n := len(v.Metrics[m].Values)
					a[m] = uint8(k % n)
					k /= n
				}
				s := v.Canonical(a)
				do(w, StrCase{s, vi, "base-complete"})
				// the same base vector with every Modified metric written out as an explicit COPY of its base metric
				// (the representation a "redundant environmental group" normalisation would touch), alone and with one
				// seeded temporal / requirement metric defined
				if v.ID != spec.V20 {
					b := a.Clone()
					explicitCopy(v, b)
					do(w, StrCase{v.Canonical(b), vi, "base-complete-explicit-copy"})
					for tries := 0; tries < 2; tries++ {
						m := w.R.Intn(v.N())
						if me := v.Metrics[m]; !me.Mandatory && me.BaseOf < 0 && me.Group != spec.GSupp {
							b[m] = uint8(1 + w.R.Intn(len(me.Values)-1))
							do(w, StrCase{v.Canonical(b), vi, "base-complete-explicit-copy"})
							break
						}
					}
				}
				if v.ID == spec.V30 || v.ID == spec.V31 {
					other := spec.Versions[spec.V30+spec.V31-v.ID]
					do(w, StrCase{other.Header + s[len(v.Header):], vi, "base-complete-sibling-header"})
				}
			})
		}
	}
	// (a4) COMPLETE: every assignment with at most 2 optional metrics defined x all their values, canonical and spelled
	if cfg.Cover {
		for vi, v := range spec.Versions {
			vi, v := vi, v
			subsets := gen.SparseSubsets(v, 2)
			c.Parallel("at-most-2-defined-"+v.Name, len(subsets), 2, func(w *Worker, i int) {
				base := gen.KSparseAssign(w.R, v, 0)
				gen.EnumSubsetValues(v, base, subsets[i], func(a spec.Assign) {
					do(w, StrCase{v.Canonical(a), vi, "at-most-2-defined-canonical"})
					sp, _ := gen.RandomSpelling(w.R, v, a)
					do(w, StrCase{sp, vi, "at-most-2-defined-spelled"})
				})
			})
		}
	}
	// (a3) COMPLETE: every prefix of the base group (0..all base metrics) followed by ONE optional
	// metric with each of its values; and followed by every ordered pair of optional metrics (first values):
	// the shapes where a parser's "skip ahead in the order table" logic can jump over the mandatory check
	if cfg.Cover {
		for vi, v := range spec.Versions {
			vi, v := vi, v
			var base, opt []int
			for m, me := range v.Metrics {
				if me.Mandatory {
					base = append(base, m)
				} else {
					opt = append(opt, m)
				}
			}
			c.Parallel("prefix-plus-optional-"+v.Name, (len(base)+1)*len(opt), 4, func(w *Worker, i int) {
				k := i / len(opt)
				m := opt[i%len(opt)]
				a := gen.RandomAssign(w.R, v)
				var el []string
				for _, b := range base[:k] {
					el = append(el, v.Metrics[b].Abv+":"+v.Metrics[b].Values[a[b]])
				}
				h := v.Header
				if v.ID == spec.V40 {
					h += "/"
				}
				for _, val := range v.Metrics[m].Values {
					do(w, StrCase{h + strings.Join(append(append([]string{}, el...), v.Metrics[m].Abv+":"+val), "/"), vi, "prefix-plus-optional"})
				}
				for _, m2 := range opt {
					if m2 != m {
						e2 := append(append([]string{}, el...), v.Metrics[m].Abv+":"+v.Metrics[m].Values[a[m]], v.Metrics[m2].Abv+":"+v.Metrics[m2].Values[a[m2]])
						do(w, StrCase{h + strings.Join(e2, "/"), vi, "prefix-plus-two-optional"})
					}
				}
			})
		}
	}
	// (a5) hash-collision pairs (collide.go): two distinct fully defined vectors of equal length and equal 32-bit hash,
	// parsed back to back (A B A B ...): what a parse memo keyed on (hash, length) confuses
	if cfg.Cover {
		for vi, v := range spec.Versions {
			vi, v := vi, v
			pairs := FindCollisionPairs(c.Rand("collision-pairs", v.Name), v, c.Pick(1<<20, 1<<22), c.Pick(48, 512))
			c.Floor("hash-collision pairs of equal-length vectors v"+v.Name, int64(len(pairs)), 40)
			c.mu.Lock()
			c.Counts["collision-pairs-v"+v.Name] += int64(len(pairs))
			for _, p := range pairs {
				c.Counts["collision-pairs:"+p.How]++
			}
			c.mu.Unlock()
			c.Parallel("hash-collision-pairs-"+v.Name, len(pairs), 1, func(w *Worker, i int) {
				for rep := 0; rep < 3; rep++ {
					w.Pre = []string{pairs[i].B}
					do(w, StrCase{pairs[i].A, vi, "hash-collision-pair:" + pairs[i].How})
					w.Pre = []string{pairs[i].A}
					do(w, StrCase{pairs[i].B, vi, "hash-collision-pair:" + pairs[i].How})
					w.Pre = nil
				}
			})
		}
	}
	// (b) complete neighbourhoods of anchors
	for vi, v := range spec.Versions {
		anc := anchors(c.Rand("anchors", v.Name), v, cfg.Anchors)
		vi := vi
		c.Parallel("anchors-"+v.Name, len(anc), 1, func(w *Worker, i int) {
			do(w, StrCase{anc[i], vi, "anchor"})
			neighbourhood(anc[i], func(t, op string) { do(w, StrCase{t, vi, op}) })
		})
	}
	// COMPLETE: every pair of bytes in the two version-digit positions of "CVSS:a.b/" (65,536 headers), and every byte
	// in the separator position, in front of a valid body of each headed version: a version compared as a number
	// ((a-'0')*10 + b-'0') or through a table accepts pairs that are not digits at all
	if cfg.Cover {
		for vi, v := range spec.Versions {
			vi, v := vi, v
			if v.Header == "" {
				continue
			}
			_, el := gen.SplitElems(v, v.Canonical(v.ZeroAssign()))
			body := strings.Join(el, "/")
			c.Parallel("header-digit-pairs-"+v.Name, 256, 1, func(w *Worker, x int) {
				h := []byte(v.Header) // "CVSS:3.1/"
				for y := 0; y < 256; y++ {
					h[5], h[7] = byte(x), byte(y)
					do(w, StrCase{string(h) + body, vi, "header-digit-pair"})
				}
				h = []byte(v.Header)
				h[6] = byte(x)
				do(w, StrCase{string(h) + body, vi, "header-separator-byte"})
				for _, d := range []byte("0123456789") {
					h[7] = d
					do(w, StrCase{string(h) + body, vi, "header-separator-byte"})
				}
			})
		}
	}
	// header variants x bodies
	for vi, v := range spec.Versions {
		vi, v := vi, v
		c.Parallel("headers-"+v.Name, len(gen.Headers), 1, func(w *Worker, i int) {
			for k := 0; k < 6; k++ {
				a := gen.SparseAssign(w.R, v, k, 5)
				_, el := gen.SplitElems(v, v.Canonical(a))
				body := strings.Join(el, "/")
				do(w, StrCase{gen.Headers[i] + body, vi, "header-x-body"})
				do(w, StrCase{gen.Headers[i] + "/" + body, vi, "header-x-body"})
			}
			// bodies in any order (short elements first as often as long ones): alignment-sensitive header checks
			for k := 0; k < 60; k++ {
				a := gen.MixedAssign(w.R, v)
				sp, _ := gen.RandomSpelling(w.R, v, a)
				_, el := gen.SplitElems(v, sp)
				if v.ID != spec.V30 && v.ID != spec.V31 {
					// also offer v2/v4 element lists shuffled: ill-formed for them, but a v3-shaped parser may take them
					p := w.R.Perm(len(el))
					sh := make([]string, len(el))
					for x, y := range p {
						sh[x] = el[y]
					}
					el = sh
				}
				body := strings.Join(el, "/")
				do(w, StrCase{gen.Headers[i] + body, vi, "header-x-shuffled-body"})
			}
		})
	}
	// CONFIGURATION WALK: the canonical vector of every configuration of the optional metrics (v2.0: all
	// 192,000 x 3 base backgrounds; v3.0/v3.1: 221,184,000 each; v4.0: 1,179,648,000 threat+environmental
	// configurations, supplemental seeded) -- complete in thorough, a seeded fraction of the chunks in quick
	if cfg.Cover {
		for vi, v := range spec.Versions {
			vi, v := vi, v
			var opt []int
			for m, me := range v.Metrics {
				if !me.Mandatory && me.Group != spec.GSupp {
					opt = append(opt, m)
				}
			}
			pre := 3
			if v.ID == spec.V40 {
				pre = 4
			}
			nChunks := 1
			for _, m := range opt[:pre] {
				nChunks *= len(v.Metrics[m].Values)
			}
			stride := 1
			capPerChunk := int64(1) << 62
			if c.Quick {
				// quick: a few chunks, each cut after 60,000 configurations
				capPerChunk = 60000
				switch v.ID {
				case spec.V20:
					stride = 10
				case spec.V40:
					stride = 64
				default:
					stride = 25
				}
			} else if v.ID == spec.V40 {
				stride = 8 // thorough: v2, v3.0, v3.1 complete; v4.0 one chunk in 8 (147 M configurations)
			}
			off := c.Rand("walk-offset", v.Name).Intn(stride)
			walk := opt[pre:]
			c.Parallel("configuration-walk-"+v.Name, (nChunks-off+stride-1)/stride, 1, func(w *Worker, k int) {
				ci := off + k*stride
				a := gen.KSparseAssign(w.R, v, 0)
				for mI, me := range v.Metrics {
					if me.Group == spec.GSupp {
						a[mI] = uint8(w.R.Intn(len(me.Values)))
					}
				}
				x := ci
				for _, m := range opt[:pre] {
					n := len(v.Metrics[m].Values)
					a[m] = uint8(x % n)
					x /= n
				}
				n := len(walk)
				dig, foc, dir := make([]int, n), make([]int, n+1), make([]int, n)
				for j := range foc {
					foc[j] = j
				}
				for j := range dir {
					dir[j] = 1
				}
				var visited int64
				for {
					do(w, StrCase{v.Canonical(a), vi, "configuration-walk"})
					visited++
					j := foc[0]
					foc[0] = 0
					if j == n || c.nviolA.Load() > 1000 || visited >= capPerChunk {
						break
					}
					dig[j] += dir[j]
					if dig[j] == 0 || dig[j] == len(v.Metrics[walk[j]].Values)-1 {
						dir[j] = -dir[j]
						foc[j] = foc[j+1]
						foc[j+1] = j + 1
					}
					a[walk[j]] = uint8(dig[j])
				}
			})
		}
	}
	// every string literal of the tree under test laid around valid vectors (a magic prefix, suffix or infix)
	if cfg.Cover {
		ls, nl := literalStrings()
		c.Extra["string_literals_of_the_tree"] = nl
		c.Parallel("literal-strings", len(ls), 256, func(w *Worker, i int) {
			do(w, StrCase{ls[i], -1, "literal-string"})
		})
	}
	// corners of the packed representation (every field at its highest / lowest code) and everything 1-2 metrics away
	if cfg.Cover {
		for vi, api := range probe.APIs {
			vi, v := vi, api.Ver
			list := cornerAssigns(api)
			c.Parallel("packed-corners-"+v.Name, len(list), 64, func(w *Worker, i int) {
				do(w, StrCase{v.Canonical(list[i]), vi, "packed-corner"})
			})
		}
	}
	// COMPLETE per anchor: BLOCK RELABELLING. A fixed-layout fast path may check a run of elements only relative to
	// each other ("three couples with the same first letter") -- wrong strings of that kind are several simultaneous
	// edits away from any valid vector. For every window width w in {1,2,3,4,6} and every pair of windows (i, j) of
	// the anchor's elements: the abbreviations of window i replaced by those of window j (values kept), the two windows
	// exchanging abbreviations, and exchanging values; plus every abbreviation's first / last byte replaced by that of
	// every other abbreviation.
	if cfg.Cover {
		for vi, v := range spec.Versions {
			vi, v := vi, v
			anc := anchors(c.Rand("relabel-anchors", v.Name), v, 6)
			c.Parallel("block-relabel-"+v.Name, len(anc), 1, func(w *Worker, ai int) {
				hdr, el := gen.SplitElems(v, anc[ai])
				ks, vs := make([]string, len(el)), make([]string, len(el))
				for i, e := range el {
					ks[i], vs[i], _ = strings.Cut(e, ":")
				}
				emit := func(k2, v2 []string) {
					out := make([]string, len(el))
					for i := range el {
						out[i] = k2[i] + ":" + v2[i]
					}
					do(w, StrCase{hdr + strings.Join(out, "/"), vi, "block-relabel"})
				}
				for _, wd := range []int{1, 2, 3, 4, 6} {
					for i := 0; i+wd <= len(el); i++ {
						for j := 0; j+wd <= len(el); j++ {
							if i == j {
								continue
							}
							k2 := append([]string{}, ks...)
							copy(k2[i:i+wd], ks[j:j+wd])
							emit(k2, vs)
							if j >= i+wd || i >= j+wd {
								k3 := append([]string{}, ks...)
								copy(k3[i:i+wd], ks[j:j+wd])
								copy(k3[j:j+wd], ks[i:i+wd])
								emit(k3, vs)
								v3 := append([]string{}, vs...)
								copy(v3[i:i+wd], vs[j:j+wd])
								copy(v3[j:j+wd], vs[i:i+wd])
								emit(ks, v3)
							}
						}
					}
				}
				for i := range el {
					for j := range el {
						if i == j || len(ks[i]) == 0 || len(ks[j]) == 0 {
							continue
						}
						k2 := append([]string{}, ks...)
						k2[i] = ks[j][:1] + ks[i][1:]
						emit(k2, vs)
						k2[i] = ks[i][:len(ks[i])-1] + ks[j][len(ks[j])-1:]
						emit(k2, vs)
					}
				}
			})
		}
	}
	// COMPLETE: every well-formed anchor wrapped in every "harmless-looking" decoration a tolerant parser
	// might normalise away: BOM, CRLF / LF / TAB / NBSP / zero-width space before or after, surrounding
	// quotes or brackets, a trailing comment, lower- and upper-cased as a whole, header case variants
	if cfg.Cover {
		decoPre := []string{"\ufeff", " ", "\t", "\n", "\r\n", "\u00a0", "\u200b", "\"", "'", "(", "[", "<",
			// a score, a label or a product in front of the vector, the way advisories and scanners print them
			"9.8/", "10.0/", "7.5/", "0.0/", "4/", "9.8 ", "9.8:", "9.8 (", "CVSS/", "CVSSv3/", "v3.1/", "3.1/", "cvss:", "CVSS3#", "CVSS2#", "NVD/", "vector=", "cvssV3_1/", "H/", "CRITICAL/", "AV:N/", "//"}
		decoSuf := []string{" ", "\t", "\n", "\r\n", "\r", "\u00a0", "\u200b", "\"", "'", ")", "]", ">", ";", ",", ".", " #x", "\x00", "\x1a"}
		for vi, v := range spec.Versions {
			vi, v := vi, v
			anc := anchors(c.Rand("deco-anchors", v.Name), v, 6)
			c.Parallel("decorated-"+v.Name, len(anc), 1, func(w *Worker, i int) {
				s := anc[i]
				for _, p := range decoPre {
					do(w, StrCase{p + s, vi, "decorated"})
					for _, q := range decoSuf {
						do(w, StrCase{p + s + q, vi, "decorated"})
					}
				}
				for _, q := range decoSuf {
					do(w, StrCase{s + q, vi, "decorated"})
				}
				do(w, StrCase{strings.ToLower(s), vi, "decorated-case"})
				do(w, StrCase{strings.ToUpper(s), vi, "decorated-case"})
				do(w, StrCase{strings.ToLower(v.Header) + s[len(v.Header):], vi, "decorated-case"})
			})
		}
	}
	// very long and degenerate inputs
	{
		var long []StrCase
		for vi, v := range spec.Versions {
			full := v.Canonical(gen.Background(c.Rand("long", v.Name), v, 1))
			_, el := gen.SplitElems(v, full)
			body := strings.Join(el, "/")
			for _, k := range []int{2, 3, 10, 1000} {
				long = append(long, StrCase{full + strings.Repeat("/"+body, k-1), vi, "long-repeated-body"})
			}
			long = append(long, StrCase{full + strings.Repeat("/", 100000), vi, "long-slashes"})
			long = append(long, StrCase{full + "/" + strings.Repeat(el[len(el)-1]+"/", 20000), vi, "long-repeated-last"})
			long = append(long, StrCase{v.Header + strings.Repeat("A", 1<<20), vi, "long-garbage"})
			long = append(long, StrCase{v.Header + strings.Repeat(":", 70000), vi, "long-colons"})
			long = append(long, StrCase{strings.Repeat(full, 3), vi, "long-concatenated"})
		}
		long = append(long, StrCase{strings.Repeat("/", 1<<20), -1, "long-slashes"}, StrCase{strings.Repeat("\x00", 1<<16), -1, "long-nul"}, StrCase{"", -1, "empty"})
		c.Parallel("long", len(long), 1, func(w *Worker, i int) { do(w, long[i]) })
	}
	// COMPLETE: every string of length <= 5 (thorough: <= 6) over a 13-byte alphabet that can spell
	// headers, separators and the shortest elements
	if cfg.Cover {
		alpha := []byte("CVS:3.014/ANL")
		maxLen := c.Pick(5, 6)
		total := 0
		pow := 1
		for l := 0; l <= maxLen; l++ {
			total += pow
			pow *= len(alpha)
		}
		c.Parallel("short-exhaustive", total, 4096, func(w *Worker, i int) {
			// index -> (length, digits)
			l, base := 0, 1
			k := i
			for k >= base {
				k -= base
				base *= len(alpha)
				l++
			}
			b := make([]byte, l)
			for j := 0; j < l; j++ {
				b[j] = alpha[k%len(alpha)]
				k /= len(alpha)
			}
			do(w, StrCase{string(b), -1, "short-exhaustive"})
		})
	}
	// (c)+(d) random
	for vi, v := range spec.Versions {
		vi, v := vi, v
		c.Parallel("random-"+v.Name, cfg.Random, 2048, func(w *Worker, i int) {
			r := w.R
			a := gen.MixedAssign(r, v)
			if r.Intn(100) < cfg.ValidBias {
				if r.Chance(1, 5) {
					do(w, StrCase{v.Canonical(a), vi, "valid-canonical"})
				} else {
					s, _ := gen.RandomSpelling(r, v, a)
					do(w, StrCase{s, vi, "valid-spelled"})
				}
				return
			}
			switch k := r.Intn(23); {
			case k >= 20:
				do(w, StrCase{gen.Subsequence(r, v), vi, "subsequence"})
			case k < 13:
				s, _ := gen.RandomSpelling(r, v, a)
				n := 1 + r.Intn(3)
				ops := ""
				for j := 0; j < n; j++ {
					var op int
					s, op = gen.Mutate(r, v, s)
					if j == 0 {
						ops = gen.MutOps[op]
					}
				}
				if n > 1 {
					ops = "stacked"
				}
				do(w, StrCase{s, vi, "mut:" + ops})
			case k < 15:
				do(w, StrCase{gen.OrderedSoup(r, v), vi, "ordered-soup"})
			case k < 17:
				do(w, StrCase{gen.Soup(r), -1, "soup"})
			case k < 19:
				do(w, StrCase{gen.Bytes(r), -1, "bytes"})
			default:
				// a valid vector of ANOTHER version offered under this version's header
				ov := spec.Versions[r.Intn(spec.NVersions)]
				oa := gen.SparseAssign(r, ov, 1, 3)
				_, el := gen.SplitElems(ov, ov.Canonical(oa))
				h := v.Header
				if v.ID == spec.V40 {
					h += "/"
				}
				do(w, StrCase{h + strings.Join(el, "/"), vi, "cross-version-body"})
			}
		})
	}
}

func isASCII(s string) bool {
	for i := 0; i < len(s); i++ {
		if s[i] >= 0x80 {
			return false
		}
	}
	return true
}

func parseSteps(s string) []Step { return []Step{{Op: "parse", S: s}} }

// ---------------------------------------------------------------- C01

func CheckC01(c *Ctx) {
	cfg := StreamCfg{Anchors: c.Pick(16, 300), Random: c.Pick(2_000_000, 100_000_000), ValidBias: 10, Cover: true}
	RunStream(c, cfg, func(w *Worker, sc StrCase, res *[spec.NVersions]PerVer) {
		for vi := range res {
			r := &res[vi]
			ver := spec.Versions[vi].Name
			if r.Panic != nil {
				c.Violate(Violation{Kind: "parse-panic", Version: ver, Steps: caseSteps(w, sc), Expected: "no panic", Observed: r.Panic.Val, Detail: map[string]any{"gen": sc.Op}})
				continue
			}
			if (r.Obj == nil) == (r.Err == nil) {
				c.Violate(Violation{Kind: "parse-contract", Version: ver, Steps: caseSteps(w, sc), Expected: "(non-nil,nil) or (nil,non-nil)",
					Observed: fmt.Sprintf("object nil=%v error=%v", r.Obj == nil, r.Err), Detail: map[string]any{"gen": sc.Op}})
				continue
			}
			acc := r.Err == nil
			if acc != r.OK {
				kind := "accepts-ill-formed"
				if r.OK {
					kind = "rejects-well-formed"
				}
				c.Violate(Violation{Kind: kind, Version: ver, Steps: caseSteps(w, sc), Expected: fmt.Sprintf("accept=%v (grammar of v%s)", r.OK, ver),
					Observed: fmt.Sprintf("accept=%v err=%v", acc, r.Err), Detail: map[string]any{"gen": sc.Op}})
			}
			if acc {
				w.Count("accepted-v" + ver)
				w.Count("accepted-by-gen:" + sc.Op)
			} else {
				w.Count("rejected-v" + ver)
				w.Count("err-v" + ver + ":" + probe.APIs[vi].Classify(r.Err).Kind.String())
			}
		}
		if w.nsample < 1<<20 {
			w.Sample(map[string]any{"input": sc.S, "gen": sc.Op, "accepted_by": acceptedBy(res)})
		}
	})
	for _, v := range spec.Versions {
		c.Floor("accepted strings v"+v.Name, c.Counts["accepted-v"+v.Name], 1000)
		c.Floor("rejected strings v"+v.Name, c.Counts["rejected-v"+v.Name], 1000)
	}
	c.Extra["alphabet_size"] = len(gen.Alphabet)
	c.Extra["mutation_operators"] = gen.MutOps
	c.Extra["anchors_per_version"] = cfg.Anchors
	c.SetReport(Report{
		Rule: "every generated string is offered to all four ParseVector functions and to the naive recogniser of the same version; evaluations = parser calls; " +
			"a case is distinct by its byte string (FNV-64 set, exact up to 6M then a lower bound); non-trivial = every string (each exercises accept/reject of 4 grammars). " +
			"Generators: pairwise covering sets of well-formed vectors; the COMPLETE edit-distance-1 neighbourhood (delete/replace/insert over a " + fmt.Sprint(len(gen.Alphabet)) + "-byte alphabet, transpositions, all prefixes/suffixes) of the anchor vectors; header variants x bodies; 1-3 stacked element/byte mutations; ordered soup; token soup; random bytes",
		Assumptions: []string{"the recogniser in harness/spec/grammar.go is a faithful transcription of the grammar in C01's quantifier", "strings further than 3 edits from a well-formed vector are reached only by the soup/bytes generators"},
	})
	c.Finish()
}

func acceptedBy(res *[spec.NVersions]PerVer) []string {
	out := []string{}
	for vi := range res {
		if res[vi].Err == nil && res[vi].Obj != nil {
			out = append(out, spec.Versions[vi].Name)
		}
	}
	return out
}

// ---------------------------------------------------------------- C06

func CheckC06(c *Ctx) {
	cfg := StreamCfg{Anchors: c.Pick(6, 60), Random: c.Pick(1_500_000, 80_000_000), ValidBias: 70, Cover: true}
	type cell struct{ ex, om int64 }
	RunStream(c, cfg, func(w *Worker, sc StrCase, res *[spec.NVersions]PerVer) {
		for vi := range res {
			r := &res[vi]
			if r.Err != nil || r.Obj == nil || !r.OK { // accept/reject disagreements are C01's
				continue
			}
			v := spec.Versions[vi]
			w.Count("accepted-v" + v.Name)
			if sc.Op != "cover-canonical" && sc.Op != "valid-canonical" {
				w.Count("accepted-noncanonical-v" + v.Name)
			}
			for m, me := range v.Metrics {
				want := me.Values[r.Assign[m]]
				w.Enter("Get", me.Abv)
				got, err, p := probe.SafeGet(r.Obj, me.Abv)
				w.Leave()
				w.Eval()
				if p != nil || err != nil || got != want {
					obs := fmt.Sprintf("Get(%q) = (%q, %v)", me.Abv, got, err)
					if p != nil {
						obs = "Get(" + me.Abv + ") panicked: " + p.Val
					}
					how := "written explicitly"
					if !r.Explicit[m] {
						how = "omitted (not defined)"
					}
					c.Violate(Violation{Kind: "get-after-parse", Version: v.Name, Steps: append(caseSteps(w, sc), Step{Op: "get", S: me.Abv}),
						Expected: fmt.Sprintf("Get(%q) = %q (%s)", me.Abv, want, how), Observed: obs, Detail: map[string]any{"gen": sc.Op, "metric": me.Abv}})
				}
				if r.Explicit[m] {
					w.Count("cell:" + v.Name + ":" + me.Abv + "=" + want + ":explicit")
				} else {
					w.Count("cell:" + v.Name + ":" + me.Abv + ":omitted")
				}
			}
			if w.nsample < 1<<20 {
				w.Sample(map[string]any{"input": sc.S, "version": v.Name, "gen": sc.Op})
			}
		}
	})
	// coverage floor: every (metric,value) explicit and every optional metric omitted, at least once
	missing := 0
	cells := 0
	for _, v := range spec.Versions {
		for _, me := range v.Metrics {
			for _, val := range me.Values {
				cells++
				if c.Counts["cell:"+v.Name+":"+me.Abv+"="+val+":explicit"] == 0 {
					missing++
				}
			}
			if !me.Mandatory {
				cells++
				if c.Counts["cell:"+v.Name+":"+me.Abv+":omitted"] == 0 {
					missing++
				}
			}
		}
	}
	c.Floor("(metric,value)x{explicit,omitted} cells hit", int64(cells-missing), int64(cells))
	c.Extra["cells_total"] = cells
	c.Extra["cells_hit"] = cells - missing
	compactCells(c)
	c.SetReport(Report{
		Rule:        "accepted strings of the C01 stream (70% well-formed spellings incl. explicit X/ND and shuffled v3 order, 30% hostile mutants that happen to stay well-formed); for each, Get of EVERY metric is compared with the value the naive recogniser reads from the string; evaluations = Get calls + parser calls; distinct = distinct input strings; non-trivial = all (each accepted string checks 14-32 Gets)",
		Assumptions: []string{"the recogniser's reading of an accepted string is the meaning the specification gives it"},
	})
	c.Finish()
}

// compactCells folds the per-cell counters into a summary to keep the evidence file small.
func compactCells(c *Ctx) {
	min := int64(-1)
	n := 0
	for k, v := range c.Counts {
		if strings.HasPrefix(k, "cell:") {
			if min < 0 || v < min {
				min = v
			}
			n++
			delete(c.Counts, k)
		}
	}
	c.Extra["cell_counters"] = n
	c.Extra["cell_min_hits"] = min
}

// ---------------------------------------------------------------- C08

func CheckC08(c *Ctx) {
	cfg := StreamCfg{Anchors: c.Pick(6, 60), Random: c.Pick(1_500_000, 80_000_000), ValidBias: 75, Cover: true}
	RunStream(c, cfg, func(w *Worker, sc StrCase, res *[spec.NVersions]PerVer) {
		for vi := range res {
			r := &res[vi]
			if r.Err != nil || r.Obj == nil || !r.OK {
				continue
			}
			v := spec.Versions[vi]
			api := probe.APIs[vi]
			want := v.Canonical(r.Assign)
			w.Enter("Vector", sc.S)
			got, p := probe.SafeVector(r.Obj)
			w.Leave()
			w.Eval()
			steps := append(caseSteps(w, sc), Step{Op: "vector"})
			if p != nil {
				c.Violate(Violation{Kind: "vector-panic", Version: v.Name, Steps: steps, Expected: want, Observed: "panic: " + p.Val})
				continue
			}
			if got != want {
				c.Violate(Violation{Kind: "not-canonical", Version: v.Name, Steps: steps, Expected: want, Observed: got, Detail: map[string]any{"gen": sc.Op}})
				continue
			}
			if sc.S == want {
				w.Count("already-canonical-v" + v.Name)
			} else {
				w.Count("non-canonical-v" + v.Name)
				// which non-canonical features occurred
				for m, me := range v.Metrics {
					if !me.Mandatory && r.Explicit[m] && r.Assign[m] == 0 {
						w.Count("feature:explicit-not-defined")
						break
					}
				}
				if v.ID == spec.V30 || v.ID == spec.V31 {
					w.Count("feature:v3-other-order-or-explicit-X")
				}
				if v.ID == spec.V20 {
					for _, g := range [][2]int{{6, 9}, {9, 14}} {
						all := true
						for m := g[0]; m < g[1]; m++ {
							all = all && r.Assign[m] == 0
						}
						if all && r.Explicit[g[0]] {
							w.Count("feature:v2-all-ND-group-written")
						}
					}
				}
			}
			if v.ID == spec.V20 {
				for _, g := range [][2]int{{6, 9}, {9, 14}} {
					nd := 0
					for m := g[0]; m < g[1]; m++ {
						if r.Assign[m] == 0 {
							nd++
						}
					}
					if nd > 0 && nd < g[1]-g[0] {
						w.Count("feature:v2-partially-ND-group")
					}
				}
			}
			// idempotence: parse(got).Vector() == got
			o2, err2, p2 := api.SafeParse(got)
			w.Eval()
			if p2 != nil || err2 != nil || o2 == nil {
				c.Violate(Violation{Kind: "canonical-not-accepted", Version: v.Name, Steps: append(steps, Step{Op: "parse", S: got}), Expected: "accepted", Observed: fmt.Sprint(err2, p2)})
				continue
			}
			got2, p3 := probe.SafeVector(o2)
			w.Eval()
			if p3 != nil || got2 != got {
				c.Violate(Violation{Kind: "not-idempotent", Version: v.Name, Steps: append(steps, Step{Op: "parse", S: got}, Step{Op: "vector"}), Expected: got, Observed: got2})
			}
			if w.nsample < 1<<20 {
				w.Sample(map[string]any{"input": sc.S, "vector": got, "version": v.Name})
			}
		}
	})
	for _, v := range spec.Versions {
		c.Floor("non-canonical accepted inputs v"+v.Name, c.Counts["non-canonical-v"+v.Name], 1000)
		c.Floor("canonical accepted inputs v"+v.Name, c.Counts["already-canonical-v"+v.Name], 100)
	}
	c.Floor("v2 all-ND group written", c.Counts["feature:v2-all-ND-group-written"], 10)
	c.Floor("v2 partially-ND group", c.Counts["feature:v2-partially-ND-group"], 10)
	c.SetReport(Report{
		Rule:        "accepted strings of the C01 stream with non-canonical spellings over-represented (explicit X / ND, shuffled v3 order, all-ND and partially-ND v2 groups); ParseVector(s).Vector() must equal the canonicaliser's output for the assignment the recogniser reads from s, and parse-then-serialise must be idempotent; distinct = distinct input strings; non-trivial = accepted strings",
		Assumptions: []string{"canonical form as defined in C08's statement, implemented in harness/spec/grammar.go Canonical()"},
	})
	c.Finish()
}

// ---------------------------------------------------------------- C13

func CheckC13(c *Ctx) {
	cfg := StreamCfg{Anchors: c.Pick(10, 120), Random: c.Pick(1_500_000, 80_000_000), ValidBias: 35, Cover: true}
	RunStream(c, cfg, func(w *Worker, sc StrCase, res *[spec.NVersions]PerVer) {
		n := 0
		for vi := range res {
			if res[vi].Err == nil && res[vi].Obj != nil {
				n++
			}
		}
		switch n {
		case 0:
			w.Count("accepted-by-none")
		case 1:
			w.Count("accepted-by-exactly-one")
		default:
			c.Violate(Violation{Kind: "accepted-by-two-versions", Steps: caseSteps(w, sc), Expected: "at most one parser accepts", Observed: fmt.Sprint("accepted by ", acceptedBy(res)), Detail: map[string]any{"gen": sc.Op}})
		}
		if sc.Op == "header-x-body" || strings.HasPrefix(sc.Op, "mut:header") || sc.Op == "cross-version-body" {
			w.Count("header-variant-strings")
		}
		// Vector() of every accepted object goes to the other three parsers and back to its own
		for vi := range res {
			r := &res[vi]
			if r.Err != nil || r.Obj == nil {
				continue
			}
			vec, p := probe.SafeVector(r.Obj)
			if p != nil {
				continue // C02/C09's business
			}
			w.Count("vector-outputs")
			for vj, api := range probe.APIs {
				o, err, pp := api.SafeParse(vec)
				w.Eval()
				if pp != nil {
					continue
				}
				acc := err == nil && o != nil
				if vj == vi && !acc {
					c.Violate(Violation{Kind: "own-vector-rejected", Version: api.Ver.Name, Steps: append(caseSteps(w, sc), Step{Op: "vector"}, Step{Op: "parse", S: vec}), Expected: "accepted by its own version", Observed: fmt.Sprint(err)})
				}
				if vj != vi && acc {
					c.Violate(Violation{Kind: "vector-accepted-by-other-version", Version: api.Ver.Name, Steps: append(caseSteps(w, sc), Step{Op: "vector"}),
						Expected: "Vector() of v" + spec.Versions[vi].Name + " rejected by v" + api.Ver.Name, Observed: "accepted: " + vec})
				}
			}
		}
		if w.nsample < 1<<20 {
			w.Sample(map[string]any{"input": sc.S, "gen": sc.Op, "accepted_by": acceptedBy(res)})
		}
	})
	c.Floor("strings accepted by exactly one parser", c.Counts["accepted-by-exactly-one"], 10000)
	c.Floor("header variant strings", c.Counts["header-variant-strings"], 1000)
	c.Extra["header_variants"] = gen.Headers
	c.SetReport(Report{
		Rule:        "the whole C01 string stream (incl. " + fmt.Sprint(len(gen.Headers)) + " header variants x bodies of every version and bodies of one version under another's header) is offered to all four parsers; at most one may accept; every Vector() output of an accepted object is offered to all four; distinct = distinct strings; non-trivial = all",
		Assumptions: []string{"none beyond the Go runtime"},
	})
	c.Finish()
}
