package mon

import (
	"fmt"
	"sync/atomic"

	"verifharness/gen"
	"verifharness/probe"
	"verifharness/spec"
)

// ---------------------------------------------------------------- C10

// envIndex is the index of the environmental score method per version (v3: EnvironmentalScore, v4: Score).
func envIndex(v *spec.Version) int {
	if v.ID == spec.V40 {
		return 0
	}
	return 2
}

// modIndexFor maps a base value index of metric `base` to the value index of its Modified metric.
func modValueFor(v *spec.Version, mod int, baseVal uint8) uint8 {
	me := v.Metrics[mod]
	want := v.Metrics[me.BaseOf].Values[baseVal]
	return uint8(v.ValueIndex(mod, want))
}

// baseValueFor maps a Modified value index to the base value index with the same name, or -1 (MSI/MSA:S).
func baseValueFor(v *spec.Version, mod int, modVal uint8) int {
	me := v.Metrics[mod]
	return v.ValueIndex(me.BaseOf, me.Values[modVal])
}

// defaults spelled out: metric -> value that "not defined" scores as.
func ndDefault(v *spec.Version, abv string) string {
	if v.ID == spec.V40 {
		switch abv {
		case "E":
			return "A"
		case "CR", "IR", "AR":
			return "H"
		}
		return ""
	}
	switch abv {
	case "E":
		return "H"
	case "RL":
		return "U"
	case "RC":
		return "C"
	case "CR", "IR", "AR":
		return "M"
	}
	return ""
}

type sib struct {
	a    spec.Assign
	what string
}

func CheckC10(c *Ctx) {
	var groups atomic.Int64
	// compare: all siblings must give the same value for score index si (and, if also >= 0, for the extra indexes)
	compare := func(w *Worker, api *probe.API, ref spec.Assign, sibs []sib, idx []int, kind string) {
		v := api.Ver
		o, steps := buildOrViolate(c, w, api, ref, w.R.Intn(NStyles))
		if o == nil {
			return
		}
		var want [5]float64
		for _, si := range idx {
			f, p := probe.SafeScore(o, si)
			w.Eval()
			if p != nil {
				c.Violate(Violation{Kind: "score-panic", Version: v.Name, Steps: append(steps(), Step{Op: "score"}), Expected: "returns", Observed: p.Val})
				return
			}
			want[si] = f
		}
		for _, s := range sibs {
			q, qsteps := buildOrViolate(c, w, api, s.a, w.R.Intn(NStyles))
			if q == nil {
				return
			}
			for _, si := range idx {
				f, p := probe.SafeScore(q, si)
				w.Eval()
				if p != nil || f != want[si] {
					c.Violate(Violation{Kind: kind, Version: v.Name, Steps: append(qsteps(), Step{Op: "score"}),
						Expected: fmt.Sprintf("%s = %s, as for %s (%s)", api.ScoreNames[si], fstr(want[si]), v.Canonical(ref), s.what),
						Observed: fmt.Sprintf("%s for %s (panic=%v)", fstr(f), v.Canonical(s.a), p), Detail: map[string]any{"relation": s.what}})
					return
				}
			}
			w.Count("sibling:" + s.what)
		}
		groups.Add(1)
		c.Distinct.Add(HashBytes(v.ID, ref) ^ HashString(kind))
	}
	for _, vid := range []int{spec.V30, spec.V31, spec.V40} {
		api := probe.APIs[vid]
		v := api.Ver
		ei := envIndex(v)
		var mods []int
		for mI, me := range v.Metrics {
			if me.BaseOf >= 0 {
				mods = append(mods, mI)
			}
		}
		impactBase := []int{}
		for _, n := range []string{"C", "I", "A", "VC", "VI", "VA", "SC", "SI", "SA"} {
			if i := v.Index(n); i >= 0 {
				impactBase = append(impactBase, i)
			}
		}
		background := func(r *gen.Rand, k int) spec.Assign {
			a := gen.RandomAssign(r, v)
			switch k % 6 {
			case 0: // all-None base impact, Modified impact X: the no-impact corner
				for _, m := range impactBase {
					a[m] = uint8(v.ValueIndex(m, "N"))
				}
				for _, m := range mods {
					a[m] = 0
				}
			case 1: // all-None base impact, random Modified
				for _, m := range impactBase {
					a[m] = uint8(v.ValueIndex(m, "N"))
				}
			case 2: // all-High base impact
				for _, m := range impactBase {
					a[m] = uint8(v.ValueIndex(m, "H"))
				}
			case 3: // all-High base, all Modified impact None
				for _, m := range impactBase {
					a[m] = uint8(v.ValueIndex(m, "H"))
				}
				for _, m := range mods {
					if vi := v.ValueIndex(m, "N"); vi >= 0 && contains(impactBase, v.Metrics[m].BaseOf) {
						a[m] = uint8(vi)
					}
				}
			case 4: // no Modified metric defined
				for _, m := range mods {
					a[m] = 0
				}
			case 5: // few metrics defined
				a = gen.MixedAssign(r, v)
			}
			return a
		}
		// (1) exhaustive per metric x base value x Modified value x direction on many backgrounds
		nbg := c.Pick(400, 20000)
		c.Parallel("override-matrix-"+v.Name, nbg*len(mods), 8, func(w *Worker, i int) {
			bg := background(w.R, i/len(mods))
			mod := mods[i%len(mods)]
			base := v.Metrics[mod].BaseOf
			for b := range v.Metrics[base].Values {
				for mv := 1; mv < len(v.Metrics[mod].Values); mv++ {
					ref := bg.Clone()
					ref[base], ref[mod] = uint8(b), uint8(mv)
					var sibs []sib
					// the overridden base value is irrelevant
					for b2 := range v.Metrics[base].Values {
						if b2 != b {
							s := ref.Clone()
							s[base] = uint8(b2)
							sibs = append(sibs, sib{s, "overridden base " + v.Metrics[base].Abv + " changed"})
						}
					}
					// the same effective value carried by the base metric
					if eq := baseValueFor(v, mod, uint8(mv)); eq >= 0 {
						s := ref.Clone()
						s[base], s[mod] = uint8(eq), 0
						sibs = append(sibs, sib{s, "effective value moved from " + v.Metrics[mod].Abv + " to " + v.Metrics[base].Abv})
					}
					compare(w, api, ref, sibs, []int{ei}, "effective-value-not-respected")
				}
				// X replaced by an explicit copy of the base value
				ref := bg.Clone()
				ref[base], ref[mod] = uint8(b), 0
				s := ref.Clone()
				s[mod] = modValueFor(v, mod, uint8(b))
				compare(w, api, ref, []sib{{s, "X replaced by explicit copy of base " + v.Metrics[base].Abv}}, []int{ei}, "effective-value-not-respected")
			}
			w.Count("matrix:" + v.Metrics[mod].Abv)
		})
		// (2) random sibling groups: full normalisation, defaults spelled out, env-only changes, supplemental
		c.Parallel("random-siblings-"+v.Name, c.Pick(1_000_000, 50_000_000), 2048, func(w *Worker, i int) {
			r := w.R
			ref := background(r, r.Intn(12))
			var sibs []sib
			// S3: every effective value moved to where it can also live
			norm := ref.Clone()
			for _, m := range mods {
				if norm[m] != 0 {
					if eq := baseValueFor(v, m, norm[m]); eq >= 0 {
						norm[v.Metrics[m].BaseOf], norm[m] = uint8(eq), 0
					}
				}
			}
			sibs = append(sibs, sib{norm, "all Modified values folded into base"})
			expl := ref.Clone()
			for _, m := range mods {
				if expl[m] == 0 {
					expl[m] = modValueFor(v, m, expl[v.Metrics[m].BaseOf])
				}
			}
			sibs = append(sibs, sib{expl, "every X Modified metric written explicitly"})
			decoy := expl.Clone()
			for _, m := range mods {
				b := v.Metrics[m].BaseOf
				decoy[b] = uint8(r.Intn(len(v.Metrics[b].Values)))
			}
			sibs = append(sibs, sib{decoy, "all base metrics overridden and randomised"})
			// S4: defaults
			d := ref.Clone()
			for mI, me := range v.Metrics {
				if def := ndDefault(v, me.Abv); def != "" {
					di := uint8(v.ValueIndex(mI, def))
					if d[mI] == 0 {
						d[mI] = di
					} else if d[mI] == di && r.Bool() {
						d[mI] = 0
					}
				}
			}
			sibs = append(sibs, sib{d, "not-defined E/RL/RC/CR/IR/AR <-> default spelled out"})
			idx := []int{ei}
			if v.ID == spec.V40 {
				s := ref.Clone()
				for mI, me := range v.Metrics {
					if me.Group == spec.GSupp {
						s[mI] = uint8(r.Intn(len(me.Values)))
					}
				}
				sibs = append(sibs, sib{s, "supplemental metrics changed"})
			}
			compare(w, api, ref, sibs, idx, "effective-value-not-respected")
			if v.ID != spec.V40 {
				// temporal: E/RL/RC defaults spelled out must not change TemporalScore either
				t := ref.Clone()
				for _, n := range []string{"E", "RL", "RC"} {
					mI := v.Index(n)
					di := uint8(v.ValueIndex(mI, ndDefault(v, n)))
					if t[mI] == 0 {
						t[mI] = di
					} else if t[mI] == di {
						t[mI] = 0
					}
				}
				compare(w, api, ref, []sib{{t, "not-defined E/RL/RC <-> default (TemporalScore)"}}, []int{1, 2}, "default-not-respected")
				// S5: base/temporal/sub-scores ignore all environmental metrics
				e := ref.Clone()
				for mI, me := range v.Metrics {
					if me.Group == spec.GEnv {
						e[mI] = uint8(r.Intn(len(me.Values)))
					}
				}
				compare(w, api, ref, []sib{{e, "only environmental metrics changed"}}, []int{0, 1, 3, 4}, "base-or-temporal-depends-on-environmental-metric")
			}
			if i%100003 == 0 {
				w.Sample(map[string]any{"version": v.Name, "reference": v.Canonical(ref), "siblings": []string{v.Canonical(norm), v.Canonical(expl), v.Canonical(decoy), v.Canonical(d)}})
			}
		})
	}
	c.Floor("sibling groups", groups.Load(), 1000)
	c.SetReport(Report{
		Rule:        "metamorphic sibling monitor, no model: objects with the same effective values must give the same environmental score (v3 EnvironmentalScore, v4 Score). COMPLETE per overridable metric x base value x Modified value: overridden base changed to every other value; effective value moved between Modified and base; X replaced by an explicit copy -- on seeded backgrounds incl. the all-None / all-High impact corners. Random groups: all Modified folded into base, all X written explicitly, all base metrics overridden+randomised, not-defined E/RL/RC/CR/IR/AR vs the default spelled out (v3 also TemporalScore), v3 Base/Temporal/Impact/Exploitability under random environmental metrics, v4 under random supplemental metrics. distinct = distinct (reference assignment, relation kind) groups",
		Assumptions: []string{"defaults: v3 E:X=H RL:X=U RC:X=C CR/IR/AR:X=M; v4 E:X=A CR/IR/AR:X=H (specification tables)"},
	})
	c.Finish()
}

func contains(xs []int, x int) bool {
	for _, y := range xs {
		if y == x {
			return true
		}
	}
	return false
}

// ---------------------------------------------------------------- C12

type gdim struct {
	m    int
	vals []uint8 // value indexes in ascending severity
}

// sevDims lists, for the given metrics, the defined values sorted by severity.
func sevDims(v *spec.Version, names []string) []gdim {
	var ds []gdim
	for _, n := range names {
		m := v.Index(n)
		me := v.Metrics[m]
		max := -1
		for _, s := range me.Sev {
			if s > max {
				max = s
			}
		}
		d := gdim{m: m}
		for rank := 0; rank <= max; rank++ {
			for vi, s := range me.Sev {
				if s == rank {
					d.vals = append(d.vals, uint8(vi))
				}
			}
		}
		ds = append(ds, d)
	}
	return ds
}

func CheckC12(c *Ctx) {
	var objects int64
	// ---- v2 / v3.0 / v3.1 grids
	type gridSpec struct {
		vid    int
		names  []string
		scores []int
	}
	grids := []gridSpec{
		{spec.V20, []string{"AV", "AC", "Au", "C", "I", "A", "E", "RL", "RC"}, []int{0, 1}},
		{spec.V30, []string{"AV", "AC", "PR", "UI", "S", "C", "I", "A", "E", "RL", "RC"}, []int{0, 1}},
		{spec.V31, []string{"AV", "AC", "PR", "UI", "S", "C", "I", "A", "E", "RL", "RC", "CR", "IR", "AR"}, []int{0, 1, 2}},
	}
	for _, g := range grids {
		api := probe.APIs[g.vid]
		v := api.Ver
		dims := sevDims(v, g.names)
		total := 1
		stride := make([]int, len(dims))
		for i, d := range dims {
			stride[i] = total
			total *= len(d.vals)
		}
		sc := make([][]int16, len(g.scores))
		for i := range sc {
			sc[i] = make([]int16, total)
		}
		assignOf := func(idx int) spec.Assign {
			a := v.ZeroAssign()
			for _, d := range dims {
				a[d.m] = d.vals[idx%len(d.vals)]
				idx /= len(d.vals)
			}
			return a
		}
		c.Parallel("grid-score-"+v.Name, total, 1<<14, func(w *Worker, i int) {
			a := assignOf(i)
			o, steps := buildOrViolate(c, w, api, a, styleFor(i))
			if o == nil {
				return
			}
			for k, si := range g.scores {
				f, p := probe.SafeScore(o, si)
				w.Eval()
				kk, exact := tenth(f)
				if p != nil || !exact {
					c.Violate(Violation{Kind: "score-unusable", Version: v.Name, Steps: append(steps(), Step{Op: "score"}), Expected: "a one-decimal score", Observed: fmt.Sprint(f, p)})
					return
				}
				sc[k][i] = int16(kk)
			}
		})
		if c.NViol() > 0 {
			break
		}
		c.Parallel("grid-edges-"+v.Name, total, 1<<14, func(w *Worker, i int) {
			rem := i
			for d, dm := range dims {
				pos := rem % len(dm.vals)
				rem /= len(dm.vals)
				if pos+1 >= len(dm.vals) {
					continue
				}
				j := i + stride[d] // one severity step up in dimension d
				for k, si := range g.scores {
					w.Acc[0]++
					if sc[k][j] < sc[k][i] {
						lo, hi := assignOf(i), assignOf(j)
						c.Violate(Violation{Kind: "more-severe-scores-lower", Version: v.Name, Steps: []Step{{Op: "parse", S: v.Canonical(lo)}, {Op: "score"}, {Op: "parse", S: v.Canonical(hi)}, {Op: "score"}},
							Expected: fmt.Sprintf("%s(%s) >= %s(%s) = %.1f (step %s %s->%s)", api.ScoreNames[si], v.Canonical(hi), api.ScoreNames[si], v.Canonical(lo), float64(sc[k][i])/10, v.Metrics[dm.m].Abv, v.Metrics[dm.m].Values[lo[dm.m]], v.Metrics[dm.m].Values[hi[dm.m]]),
							Observed: fmt.Sprintf("%.1f", float64(sc[k][j])/10), Detail: map[string]any{"metric": v.Metrics[dm.m].Abv, "method": api.ScoreNames[si]}})
					} else if sc[k][j] > sc[k][i] {
						w.Acc[1]++
					}
				}
				w.Acc[2+d]++
			}
			w.Eval()
		})
		for d, dm := range dims {
			c.Counts["edges:"+v.Name+":"+v.Metrics[dm.m].Abv] = c.Acc[2+d]
			c.Acc[2+d] = 0
		}
		objects += int64(total)
		c.Extra["grid_objects_v"+v.Name] = total
	}
	// ---- v4: all effective classes
	{
		api := probe.APIs[spec.V40]
		v := api.Ver
		radix := []int{4, 2, 2, 3, 3, 3, 3, 3, 3, 4, 4, 3, 3, 3, 3}
		names := []string{"AV", "AC", "AT", "PR", "UI", "VC", "VI", "VA", "SC", "SI", "SA", "E", "CR", "IR", "AR"}
		stride := make([]int, len(radix))
		t := 1
		for i, n := range radix {
			stride[i] = t
			t *= n
		}
		if t != spec.V4ClassCount {
			Broken("v4 class radix mismatch")
		}
		sc := make([]uint8, t)
		c.Parallel("v4-class-score", t, 1<<15, func(w *Worker, i int) {
			a := v4Realise(w.R, spec.V4ClassFromIndex(i), w.R.Intn(3))
			o, steps := buildOrViolate(c, w, api, a, styleFor(i))
			if o == nil {
				return
			}
			f, p := probe.SafeScore(o, 0)
			w.Eval()
			kk, exact := tenth(f)
			if p != nil || !exact || kk < 0 || kk > 250 {
				c.Violate(Violation{Kind: "score-unusable", Version: v.Name, Steps: append(steps(), Step{Op: "score"}), Expected: "a one-decimal score", Observed: fmt.Sprint(f, p)})
				return
			}
			sc[i] = uint8(kk)
		})
		if c.NViol() == 0 {
			c.Parallel("v4-class-edges", t, 1<<15, func(w *Worker, i int) {
				rem := i
				for d, n := range radix {
					lvl := rem % n
					rem /= n
					if lvl == 0 {
						continue
					}
					j := i - stride[d] // level-1 = one step more severe
					w.Acc[0]++
					if sc[j] < sc[i] {
						lo := v4Realise(w.R, spec.V4ClassFromIndex(i), 0)
						hi := v4Realise(w.R, spec.V4ClassFromIndex(j), 0)
						c.Violate(Violation{Kind: "more-severe-scores-lower", Version: v.Name, Steps: []Step{{Op: "parse", S: v.Canonical(lo)}, {Op: "score"}, {Op: "parse", S: v.Canonical(hi)}, {Op: "score"}},
							Expected: fmt.Sprintf("Score(%s) >= Score(%s) = %.1f (effective %s one step more severe)", v.Canonical(hi), v.Canonical(lo), float64(sc[i])/10, names[d]),
							Observed: fmt.Sprintf("%.1f", float64(sc[j])/10), Detail: map[string]any{"metric": names[d]}})
					} else if sc[j] > sc[i] {
						w.Acc[1]++
					}
					w.Acc[2+d]++
				}
				w.Eval()
			})
			for d := range radix {
				c.Counts["edges:4.0:"+names[d]] = c.Acc[2+d]
				c.Acc[2+d] = 0
			}
		}
		objects += int64(t)
		c.Extra["grid_objects_v4.0"] = t
	}
	// ---- raw-level steps on random full objects (Modified metrics, overridden base metrics, explicit/omitted neighbours)
	for _, api := range probe.APIs {
		api := api
		v := api.Ver
		var scores []int
		switch v.ID {
		case spec.V20, spec.V30:
			scores = []int{0, 1}
		case spec.V31:
			scores = []int{0, 1, 2}
		default:
			scores = []int{0}
		}
		var steppable []int
		for mI, me := range v.Metrics {
			for _, s := range me.Sev {
				if s > 0 {
					steppable = append(steppable, mI)
					break
				}
			}
		}
		c.Parallel("raw-steps-"+v.Name, c.Pick(1_000_000, 80_000_000), 2048, func(w *Worker, i int) {
			r := w.R
			a := gen.MixedAssign(r, v)
			m := steppable[r.Intn(len(steppable))]
			me := v.Metrics[m]
			// make a[m] a defined, non-maximal rung; b = next more severe rung
			var lowIdx, highIdx int = -1, -1
			rank := r.Intn(len(me.Values))
			for tries := 0; tries < 8 && lowIdx < 0; tries++ {
				rank = r.Intn(len(me.Values))
				for vi, s := range me.Sev {
					if s == rank {
						for vj, s2 := range me.Sev {
							if s2 == rank+1 {
								lowIdx, highIdx = vi, vj
							}
						}
					}
				}
			}
			if lowIdx < 0 {
				return
			}
			a[m] = uint8(lowIdx)
			b := a.Clone()
			b[m] = uint8(highIdx)
			st := r.Intn(NStyles)
			oa, sa := buildOrViolate(c, w, api, a, st)
			ob, _ := buildOrViolate(c, w, api, b, r.Intn(NStyles))
			if oa == nil || ob == nil {
				return
			}
			for _, si := range scores {
				fa, pa := probe.SafeScore(oa, si)
				fb, pb := probe.SafeScore(ob, si)
				w.EvalN(2)
				w.Acc[0]++
				if pa != nil || pb != nil || fb < fa {
					c.Violate(Violation{Kind: "more-severe-scores-lower", Version: v.Name, Steps: append(sa(), Step{Op: "score"}, Step{Op: "set", S: me.Abv, Val: me.Values[highIdx]}, Step{Op: "score"}),
						Expected: fmt.Sprintf("%s does not decrease when %s goes %s -> %s on %s (was %s)", api.ScoreNames[si], me.Abv, me.Values[lowIdx], me.Values[highIdx], v.Canonical(a), fstr(fa)),
						Observed: fmt.Sprint(fstr(fb), pa, pb), Detail: map[string]any{"metric": me.Abv, "method": api.ScoreNames[si]}})
					return
				} else if fb > fa {
					w.Acc[1]++
				}
			}
			w.counts["rawstep:"+v.Name+":"+me.Abv]++
			if i%130003 == 0 {
				w.Sample(map[string]any{"version": v.Name, "less_severe": v.Canonical(a), "more_severe": v.Canonical(b), "metric": me.Abv})
			}
		})
	}
	c.Extra["edges_compared"] = c.Acc[0]
	c.Extra["edges_strictly_increasing"] = c.Acc[1]
	c.Floor("edges compared", c.Acc[0], 1_000_000)
	c.SetReport(Report{
		Rule:        "every object of the grid is scored ONCE on a real object into an array, then every single-step edge of the specification's severity order (steps between defined values only) is compared: v2.0 base x temporal (34,992 objects; BaseScore, TemporalScore), v3.0 base x temporal (124,416; base, temporal), v3.1 base x temporal x requirements (3,359,232; all three scores), v4.0 all 15,116,544 effective classes (Score) -- all complete in both tiers; plus random raw single-metric steps on full objects (Modified metrics, overridden base metrics). distinct = grid objects + raw pairs counted as edges",
		Exhaustive:  true,
		DistinctN:   objects,
		Assumptions: []string{"severity orders in harness/spec/vocab.go (Sev) follow the specifications' metric value tables; X/ND is not a rung"},
	})
	c.Finish()
}
