// Package gen holds the deterministic workload generators: PRNG, assignments,
// spellings, hostile mutations, token soup, random bytes.
package gen

import (
	"hash/fnv"
	"strings"

	"verifharness/spec"
)

// Rand is xoshiro256** seeded through splitmix64. Local, never global, never time-seeded.
type Rand struct{ s [4]uint64 }

func splitmix(x *uint64) uint64 {
	*x += 0x9e3779b97f4a7c15
	z := *x
	z = (z ^ (z >> 30)) * 0xbf58476d1ce4e5b9
	z = (z ^ (z >> 27)) * 0x94d049bb133111eb
	return z ^ (z >> 31)
}

// New derives a generator from the run seed and any number of labels
// (property, workload, shard ...), so that streams are independent and stable.
func New(seed int64, labels ...string) *Rand {
	h := fnv.New64a()
	for _, l := range labels {
		h.Write([]byte(l))
		h.Write([]byte{0})
	}
	x := uint64(seed) ^ h.Sum64()
	r := &Rand{}
	for i := range r.s {
		r.s[i] = splitmix(&x)
	}
	return r
}

func rotl(x uint64, k uint) uint64 { return (x << k) | (x >> (64 - k)) }

func (r *Rand) U64() uint64 {
	res := rotl(r.s[1]*5, 7) * 9
	t := r.s[1] << 17
	r.s[2] ^= r.s[0]
	r.s[3] ^= r.s[1]
	r.s[1] ^= r.s[2]
	r.s[0] ^= r.s[3]
	r.s[2] ^= t
	r.s[3] = rotl(r.s[3], 45)
	return res
}

// Intn returns a value in [0,n).
func (r *Rand) Intn(n int) int {
	if n <= 1 {
		return 0
	}
	return int(r.U64() % uint64(n))
}
func (r *Rand) Bool() bool           { return r.U64()&1 == 1 }
func (r *Rand) Chance(p, q int) bool { return r.Intn(q) < p }
func (r *Rand) Pick(ss []string) string {
	return ss[r.Intn(len(ss))]
}
func (r *Rand) Perm(n int) []int {
	p := make([]int, n)
	for i := range p {
		p[i] = i
	}
	for i := n - 1; i > 0; i-- {
		j := r.Intn(i + 1)
		p[i], p[j] = p[j], p[i]
	}
	return p
}

// RandomAssign draws a uniformly random assignment.
func RandomAssign(r *Rand, v *spec.Version) spec.Assign {
	a := v.ZeroAssign()
	for m := range v.Metrics {
		a[m] = uint8(r.Intn(len(v.Metrics[m].Values)))
	}
	return a
}

// SparseAssign draws an assignment where each optional metric is defined with probability p/q.
func SparseAssign(r *Rand, v *spec.Version, p, q int) spec.Assign {
	a := v.ZeroAssign()
	for m, me := range v.Metrics {
		if me.Mandatory {
			a[m] = uint8(r.Intn(len(me.Values)))
		} else if r.Chance(p, q) {
			a[m] = uint8(1 + r.Intn(len(me.Values)-1))
		}
	}
	return a
}

// KSparseAssign defines exactly k optional metrics (random values), all others "not defined"; mandatory metrics random.
func KSparseAssign(r *Rand, v *spec.Version, k int) spec.Assign {
	a := v.ZeroAssign()
	var opt []int
	for m, me := range v.Metrics {
		if me.Mandatory {
			a[m] = uint8(r.Intn(len(me.Values)))
		} else {
			opt = append(opt, m)
		}
	}
	for _, j := range r.Perm(len(opt)) {
		if k <= 0 {
			break
		}
		m := opt[j]
		a[m] = uint8(1 + r.Intn(len(v.Metrics[m].Values)-1))
		k--
	}
	return a
}

// SparseSubsets lists every set of at most kmax optional metrics of v (as metric indexes).
func SparseSubsets(v *spec.Version, kmax int) [][]int {
	var opt []int
	for m, me := range v.Metrics {
		if !me.Mandatory {
			opt = append(opt, m)
		}
	}
	var out [][]int
	var rec func(start int, cur []int)
	rec = func(start int, cur []int) {
		out = append(out, append([]int{}, cur...))
		if len(cur) == kmax {
			return
		}
		for i := start; i < len(opt); i++ {
			rec(i+1, append(cur, opt[i]))
		}
	}
	rec(0, nil)
	return out
}

// EnumSubsetValues calls f for every combination of DEFINED values of the metrics in set,
// on top of base (which is modified in place and restored).
func EnumSubsetValues(v *spec.Version, base spec.Assign, set []int, f func(a spec.Assign)) {
	var rec func(i int)
	rec = func(i int) {
		if i == len(set) {
			f(base)
			return
		}
		m := set[i]
		for vi := 1; vi < len(v.Metrics[m].Values); vi++ {
			base[m] = uint8(vi)
			rec(i + 1)
		}
		base[m] = 0
	}
	rec(0)
}

// MixedAssign draws from a mixture that covers both "everything defined" and
// "a few specific metrics defined, the rest not defined" contexts: 30% uniform,
// 25% sparse (1-3 in 4), 15% very sparse (1 in 8), 30% exactly k in 1..4 defined.
func MixedAssign(r *Rand, v *spec.Version) spec.Assign {
	switch x := r.Intn(20); {
	case x < 6:
		return RandomAssign(r, v)
	case x < 11:
		return SparseAssign(r, v, 1+r.Intn(3), 4)
	case x < 14:
		return SparseAssign(r, v, 1, 8)
	default:
		return KSparseAssign(r, v, 1+r.Intn(4))
	}
}

// Background returns one of three backgrounds: 0 all-first-value, 1 all-last-value, 2 seeded random.
func Background(r *Rand, v *spec.Version, kind int) spec.Assign {
	a := v.ZeroAssign()
	switch kind {
	case 1:
		for m, me := range v.Metrics {
			a[m] = uint8(len(me.Values) - 1)
		}
	case 2:
		return RandomAssign(r, v)
	}
	return a
}

// Cover yields a deterministic covering set of assignments: every
// (metric,value) alone on each of three backgrounds, and every pair of
// (metric,value) choices at least once (greedy-free: explicit enumeration of
// pairs on a random background).
func Cover(r *Rand, v *spec.Version, pairs bool, f func(a spec.Assign)) {
	for bg := 0; bg < 3; bg++ {
		for m, me := range v.Metrics {
			for vi := range me.Values {
				a := Background(r, v, bg)
				a[m] = uint8(vi)
				f(a)
			}
		}
	}
	if !pairs {
		return
	}
	for m1 := range v.Metrics {
		for m2 := m1 + 1; m2 < len(v.Metrics); m2++ {
			for v1 := range v.Metrics[m1].Values {
				for v2 := range v.Metrics[m2].Values {
					a := Background(r, v, 2)
					a[m1], a[m2] = uint8(v1), uint8(v2)
					f(a)
				}
			}
		}
	}
}

// StructuredPerm returns an order of n elements: uniformly random (1/3), or NEAR the specification
// order -- one element moved, a contiguous block moved, two elements swapped, a rotation, the reverse --
// because parsers special-case runs of elements that appear in specification order.
func StructuredPerm(r *Rand, n int) []int {
	p := make([]int, n)
	for i := range p {
		p[i] = i
	}
	switch r.Intn(9) {
	case 0, 1, 2:
		return r.Perm(n)
	case 3, 4: // one element moved
		i, j := r.Intn(n), r.Intn(n)
		x := p[i]
		p = append(p[:i], p[i+1:]...)
		p = append(p[:j:j], append([]int{x}, p[j:]...)...)
	case 5, 6: // a contiguous block moved
		lo := r.Intn(n)
		hi := lo + 1 + r.Intn(n-lo)
		blk := append([]int{}, p[lo:hi]...)
		rest := append(append([]int{}, p[:lo]...), p[hi:]...)
		at := r.Intn(len(rest) + 1)
		p = append(append(append([]int{}, rest[:at]...), blk...), rest[at:]...)
	case 7: // rotation
		k := r.Intn(n)
		p = append(append([]int{}, p[k:]...), p[:k]...)
	default: // two swapped, or reversed
		if r.Bool() {
			i, j := r.Intn(n), r.Intn(n)
			p[i], p[j] = p[j], p[i]
		} else {
			for i, j := 0, n-1; i < j; i, j = i+1, j-1 {
				p[i], p[j] = p[j], p[i]
			}
		}
	}
	return p
}

// RandomSpelling writes a as an accepted, generally non-canonical string:
// explicit "not defined" values with probability 1/4 per metric (v2: groups),
// and for v3 a random order of the metrics.
func RandomSpelling(r *Rand, v *spec.Version, a spec.Assign) (s string, explicit []bool) {
	explicit = make([]bool, v.N())
	for m, me := range v.Metrics {
		if me.Mandatory || a[m] != 0 {
			explicit[m] = true
		} else {
			explicit[m] = r.Chance(1, 4)
		}
	}
	if v.ID == spec.V20 {
		// a v2 group is written in full or not at all
		for _, g := range [][2]int{{6, 9}, {9, 14}} {
			any := false
			for m := g[0]; m < g[1]; m++ {
				any = any || explicit[m]
			}
			for m := g[0]; m < g[1]; m++ {
				explicit[m] = any
			}
		}
	}
	var perm []int
	if (v.ID == spec.V30 || v.ID == spec.V31) && r.Chance(3, 4) {
		perm = StructuredPerm(r, v.N())
	}
	return v.Spell(a, explicit, perm), explicit
}

// ---- hostile neighbours ----------------------------------------------------

// Alphabet used for byte-level mutations.
var Alphabet = func() []byte {
	set := map[byte]bool{}
	for _, c := range []byte("/:XND .0123456789\t\n\x00\x7f\x80\xff") {
		set[c] = true
	}
	for _, v := range spec.Versions {
		for _, m := range v.Metrics {
			for _, s := range append([]string{m.Abv}, m.Values...) {
				for _, c := range []byte(s) {
					set[c] = true
					set[byte(strings.ToLower(string(c))[0])] = true
					set[byte(strings.ToUpper(string(c))[0])] = true
				}
			}
		}
	}
	for _, c := range []byte("CVSS:3.014") {
		set[c] = true
	}
	var out []byte
	for c := 0; c < 256; c++ {
		if set[byte(c)] {
			out = append(out, byte(c))
		}
	}
	return out
}()

// AllAbvs / AllValues: union over the four versions.
var AllAbvs, AllValues = func() ([]string, []string) {
	sa, sv := map[string]bool{}, map[string]bool{}
	var a, vs []string
	for _, v := range spec.Versions {
		for _, m := range v.Metrics {
			if !sa[m.Abv] {
				sa[m.Abv] = true
				a = append(a, m.Abv)
			}
			for _, x := range m.Values {
				if !sv[x] {
					sv[x] = true
					vs = append(vs, x)
				}
			}
		}
	}
	return a, vs
}()

var Headers = []string{"", "CVSS:3.0/", "CVSS:3.1/", "CVSS:4.0/", "CVSS:4.0", "CVSS:3.0", "CVSS:3.1", "CVSS:2.0/", "CVSS:3.2/", "CVSS:4.1/",
	"cvss:3.1/", "cvss:4.0/", "CVSS:3./", "CVSS:3/", "CVSS:4/", "CVSS:/", "CVSS:31/", "CVSS:3.10/", "CVSS:4.00/", " CVSS:3.1/", "CVSS:3.1/ ", "CVSS:3.1//", "CVSS:4.0//",
	"CVSS:3.0/CVSS:3.1/", "CVSS:3.1/CVSS:3.0/", "CVSS:4.0/CVSS:4.0/", "CVSS:1.0/", "CVSS;3.1/", "CVSS:3,1/", "CVSS3.1/", "VSS:3.1/", "\tCVSS:4.0/", "/", "//"}

func init() {
	// every proper truncation of every real header, with and without a trailing slash
	seen := map[string]bool{}
	for _, h := range Headers {
		seen[h] = true
	}
	for _, h := range []string{"CVSS:3.0/", "CVSS:3.1/", "CVSS:4.0/"} {
		for k := 1; k < len(h); k++ {
			for _, t := range []string{h[:k], h[:k] + "/"} {
				if !seen[t] {
					seen[t] = true
					Headers = append(Headers, t)
				}
			}
		}
	}
}

// SplitElems splits a vector of version v into header and elements.
func SplitElems(v *spec.Version, s string) (hdr string, elems []string) {
	body := s
	switch v.ID {
	case spec.V30, spec.V31:
		hdr, body = s[:len(v.Header)], s[len(v.Header):]
	case spec.V40:
		hdr, body = s[:len(v.Header)+1], s[len(v.Header)+1:]
	}
	return hdr, strings.Split(body, "/")
}

func join(hdr string, elems []string) string { return hdr + strings.Join(elems, "/") }

// MutOps names the mutation operators (index = operator id).
var MutOps = []string{"byte-delete", "byte-insert", "byte-replace", "byte-swapcase", "elem-dup", "elem-drop", "elem-swap", "elem-move", "abv-other-version",
	"abv-casevariant", "abv-truncate", "value-other", "value-lower", "value-empty", "value-doubled", "append-slash", "prepend-slash", "empty-elem", "truncate",
	"header-variant", "nocolon", "double-colon", "append-garbage", "elem-foreign", "whitespace", "dup-far", "lookalike", "lenwrap"}

func swapCase(c byte) byte {
	switch {
	case c >= 'a' && c <= 'z':
		return c - 32
	case c >= 'A' && c <= 'Z':
		return c + 32
	}
	return c
}

// Mutate applies one random hostile mutation to s (a string shaped like a vector of version v).
func Mutate(r *Rand, v *spec.Version, s string) (string, int) {
	op := r.Intn(len(MutOps))
	return MutateOp(r, v, s, op), op
}

func splitKV(el string) (string, string, bool) {
	i := strings.IndexByte(el, ':')
	if i < 0 {
		return el, "", false
	}
	return el[:i], el[i+1:], true
}

// MutateOp applies operator op.
func MutateOp(r *Rand, v *spec.Version, s string, op int) string {
	b := []byte(s)
	hdrOK := strings.HasPrefix(s, v.Header) && (v.ID != spec.V40 || strings.HasPrefix(s, v.Header+"/"))
	var hdr string
	var el []string
	if hdrOK {
		hdr, el = SplitElems(v, s)
	} else {
		el = strings.Split(s, "/")
	}
	pickEl := func() int { return r.Intn(len(el)) }
	switch MutOps[op] {
	case "byte-delete":
		if len(b) == 0 {
			return s
		}
		i := r.Intn(len(b))
		return string(append(b[:i:i], b[i+1:]...))
	case "byte-insert":
		i := r.Intn(len(b) + 1)
		c := Alphabet[r.Intn(len(Alphabet))]
		out := append([]byte{}, b[:i]...)
		out = append(out, c)
		return string(append(out, b[i:]...))
	case "byte-replace":
		if len(b) == 0 {
			return s
		}
		i := r.Intn(len(b))
		b[i] = Alphabet[r.Intn(len(Alphabet))]
		return string(b)
	case "byte-swapcase":
		if len(b) == 0 {
			return s
		}
		i := r.Intn(len(b))
		b[i] = swapCase(b[i])
		return string(b)
	case "elem-dup":
		i := pickEl()
		out := append([]string{}, el[:i+1]...)
		out = append(out, el[i])
		return join(hdr, append(out, el[i+1:]...))
	case "dup-far":
		i := pickEl()
		j := r.Intn(len(el) + 1)
		out := append([]string{}, el[:j]...)
		out = append(out, el[i])
		return join(hdr, append(out, el[j:]...))
	case "elem-drop":
		i := pickEl()
		out := append([]string{}, el[:i]...)
		return join(hdr, append(out, el[i+1:]...))
	case "elem-swap":
		if len(el) < 2 {
			return s
		}
		i := r.Intn(len(el) - 1)
		out := append([]string{}, el...)
		out[i], out[i+1] = out[i+1], out[i]
		return join(hdr, out)
	case "elem-move":
		if len(el) < 2 {
			return s
		}
		i, j := pickEl(), pickEl()
		out := append([]string{}, el...)
		x := out[i]
		out = append(out[:i], out[i+1:]...)
		out = append(out[:j], append([]string{x}, out[j:]...)...)
		return join(hdr, out)
	case "abv-other-version":
		i := pickEl()
		_, val, _ := splitKV(el[i])
		out := append([]string{}, el...)
		out[i] = r.Pick(AllAbvs) + ":" + val
		return join(hdr, out)
	case "abv-casevariant":
		i := pickEl()
		k, val, _ := splitKV(el[i])
		out := append([]string{}, el...)
		switch r.Intn(3) {
		case 0:
			k = strings.ToLower(k)
		case 1:
			k = strings.ToUpper(k)
		default:
			if len(k) > 0 {
				kb := []byte(k)
				p := r.Intn(len(kb))
				kb[p] = swapCase(kb[p])
				k = string(kb)
			}
		}
		out[i] = k + ":" + val
		return join(hdr, out)
	case "abv-truncate":
		i := pickEl()
		k, val, _ := splitKV(el[i])
		out := append([]string{}, el...)
		if len(k) > 0 {
			if r.Bool() {
				k = k[:len(k)-1]
			} else {
				k = k[1:]
			}
		}
		out[i] = k + ":" + val
		return join(hdr, out)
	case "value-other":
		i := pickEl()
		k, _, _ := splitKV(el[i])
		out := append([]string{}, el...)
		out[i] = k + ":" + r.Pick(AllValues)
		return join(hdr, out)
	case "value-lower":
		i := pickEl()
		k, val, _ := splitKV(el[i])
		out := append([]string{}, el...)
		if r.Bool() {
			out[i] = k + ":" + strings.ToLower(val)
		} else {
			out[i] = k + ":" + strings.ToUpper(val)
		}
		return join(hdr, out)
	case "value-empty":
		i := pickEl()
		k, _, _ := splitKV(el[i])
		out := append([]string{}, el...)
		out[i] = k + ":"
		return join(hdr, out)
	case "value-doubled":
		i := pickEl()
		k, val, _ := splitKV(el[i])
		out := append([]string{}, el...)
		out[i] = k + ":" + val + val
		return join(hdr, out)
	case "append-slash":
		return s + "/"
	case "prepend-slash":
		if hdrOK && r.Bool() {
			return hdr + "/" + strings.Join(el, "/")
		}
		return "/" + s
	case "empty-elem":
		i := r.Intn(len(el) + 1)
		out := append([]string{}, el[:i]...)
		out = append(out, "")
		return join(hdr, append(out, el[i:]...))
	case "truncate":
		if len(b) == 0 {
			return s
		}
		if r.Bool() {
			// at an element boundary
			n := r.Intn(len(el))
			t := join(hdr, el[:n])
			return t
		}
		return s[:r.Intn(len(s))]
	case "header-variant":
		h := r.Pick(Headers)
		body := strings.Join(el, "/")
		if v.ID == spec.V40 && !strings.HasSuffix(h, "/") && h != "" && r.Bool() {
			return h + "/" + body
		}
		return h + body
	case "nocolon":
		i := pickEl()
		out := append([]string{}, el...)
		out[i] = strings.Replace(out[i], ":", "", 1)
		return join(hdr, out)
	case "double-colon":
		i := pickEl()
		out := append([]string{}, el...)
		if r.Bool() {
			out[i] = strings.Replace(out[i], ":", "::", 1)
		} else {
			out[i] = out[i] + ":" + r.Pick(AllValues)
		}
		return join(hdr, out)
	case "append-garbage":
		switch r.Intn(4) {
		case 0:
			return s + " "
		case 1:
			return s + "/" + r.Pick(AllAbvs) + ":" + r.Pick(AllValues)
		case 2:
			return s + string(Alphabet[r.Intn(len(Alphabet))])
		default:
			return s + "\x00"
		}
	case "elem-foreign":
		i := r.Intn(len(el) + 1)
		ov := spec.Versions[r.Intn(spec.NVersions)]
		m := ov.Metrics[r.Intn(ov.N())]
		out := append([]string{}, el[:i]...)
		out = append(out, m.Abv+":"+r.Pick(m.Values))
		return join(hdr, append(out, el[i:]...))
	case "lenwrap":
		// an element, the header or the whole string grows by 256, 512 or 65,536 bytes: a length kept in a
		// uint8 / uint16 sees the original length
		i := pickEl()
		k, val, _ := splitKV(el[i])
		out := append([]string{}, el...)
		n := []int{256, 512, 65536}[r.Intn(3)]
		pad := strings.Repeat(string("A\x00 "[r.Intn(3)]), n)
		switch r.Intn(5) {
		case 0:
			out[i] = k + ":" + val + pad
		case 1:
			out[i] = k + pad + ":" + val
		case 2:
			return join(hdr, out) + pad
		case 3:
			if len(hdr) > 1 {
				return hdr[:len(hdr)-1] + pad + "/" + strings.Join(out, "/")
			}
			return pad + join(hdr, out)
		default:
			// the value repeated up to the wrapped length
			rep := strings.Repeat(val+"/", n/(len(val)+1)+2)
			out[i] = k + ":" + rep[:len(val)+n]
		}
		return join(hdr, out)
	case "lookalike":
		// same length, same first/last byte, one inner (or any) byte changed -- in the value or the abbreviation
		i := pickEl()
		k, val, _ := splitKV(el[i])
		out := append([]string{}, el...)
		tgt := []byte(val)
		inVal := true
		if len(val) < 2 || r.Chance(1, 3) {
			tgt = []byte(k)
			inVal = false
		}
		if len(tgt) == 0 {
			return s
		}
		p := r.Intn(len(tgt))
		if len(tgt) > 2 && r.Bool() {
			p = 1 + r.Intn(len(tgt)-2)
		}
		tgt[p] = "abcdefghijklmnopqrstuvwxyzABCDEFGHIJKLMNOPQRSTUVWXYZ"[r.Intn(52)]
		if inVal {
			out[i] = k + ":" + string(tgt)
		} else {
			out[i] = string(tgt) + ":" + val
		}
		return join(hdr, out)
	case "whitespace":
		ws := []string{" ", "\t", "\n", "\r", "\x00", "\u00a0", "\r\n", "\ufeff", "\u200b", "\v", "\f", "  "}[r.Intn(12)]
		switch r.Intn(3) {
		case 0:
			return ws + s
		case 1:
			return s + ws
		default:
			i := r.Intn(len(s) + 1)
			return s[:i] + ws + s[i:]
		}
	}
	return s
}

// Soup returns a '/'-joined sequence of random abv:value tokens from the union vocabulary, with a random header.
func Soup(r *Rand) string {
	n := r.Intn(36)
	parts := make([]string, n)
	for i := range parts {
		switch r.Intn(12) {
		case 0:
			parts[i] = r.Pick(AllAbvs)
		case 1:
			parts[i] = r.Pick(AllAbvs) + ":"
		case 2:
			parts[i] = ""
		default:
			parts[i] = r.Pick(AllAbvs) + ":" + r.Pick(AllValues)
		}
	}
	h := r.Pick(Headers)
	body := strings.Join(parts, "/")
	if h == "CVSS:4.0" && r.Bool() {
		return h + "/" + body
	}
	return h + body
}

// OrderedSoup: tokens of one version in (mostly) specification order with random local damage; reaches deep parser states.
func OrderedSoup(r *Rand, v *spec.Version) string {
	var parts []string
	for _, me := range v.Metrics {
		if !me.Mandatory && r.Chance(1, 2) {
			continue
		}
		if me.Mandatory && r.Chance(1, 40) {
			continue
		}
		val := r.Pick(me.Values)
		if r.Chance(1, 30) {
			val = r.Pick(AllValues)
		}
		parts = append(parts, me.Abv+":"+val)
		if r.Chance(1, 40) {
			parts = append(parts, me.Abv+":"+r.Pick(me.Values))
		}
	}
	if r.Chance(1, 10) && len(parts) > 1 {
		i := r.Intn(len(parts) - 1)
		parts[i], parts[i+1] = parts[i+1], parts[i]
	}
	h := v.Header
	if v.ID == spec.V40 {
		h += "/"
	}
	return h + strings.Join(parts, "/")
}

// Subsequence keeps a random subset of the elements of a well-formed, fully
// populated vector of version v (order kept; optionally one element repeated or
// two swapped). This is the natural error class of parsers that walk an order
// table: group skipping, cursor shifts, missing-metric checks.
func Subsequence(r *Rand, v *spec.Version) string {
	a := RandomAssign(r, v)
	ex := make([]bool, v.N())
	for i := range ex {
		ex[i] = true
	}
	hdr, el := SplitElems(v, v.Spell(a, ex, nil))
	var out []string
	if r.Chance(1, 3) {
		// a prefix of the mandatory metrics, then very few of the optional ones
		nb := 0
		for _, me := range v.Metrics {
			if me.Mandatory {
				nb++
			}
		}
		k := r.Intn(nb + 1)
		if r.Bool() {
			k = nb - r.Intn(3)
			if k < 0 {
				k = 0
			}
		}
		out = append(out, el[:k]...)
		keep := 1 + r.Intn(3)
		for _, j := range r.Perm(len(el) - nb) {
			if keep == 0 {
				break
			}
			out = append(out, el[nb+j])
			keep--
		}
		// restore specification order among the kept optional elements
		tail := out[k:]
		pos := map[string]int{}
		for i, e := range el {
			pos[e] = i
		}
		for i := 1; i < len(tail); i++ {
			for j := i; j > 0 && pos[tail[j]] < pos[tail[j-1]]; j-- {
				tail[j], tail[j-1] = tail[j-1], tail[j]
			}
		}
		return hdr + strings.Join(out, "/")
	}
	// drop probability: mostly few drops, sometimes many
	p := 1 + r.Intn(4)
	for _, e := range el {
		if r.Intn(8) < p {
			continue
		}
		out = append(out, e)
	}
	switch r.Intn(8) {
	case 0:
		if len(out) > 0 {
			i := r.Intn(len(out))
			out = append(out[:i+1], out[i:]...)
		}
	case 1:
		if len(out) > 1 {
			i := r.Intn(len(out) - 1)
			out[i], out[i+1] = out[i+1], out[i]
		}
	}
	return hdr + strings.Join(out, "/")
}

// Bytes returns a random byte string of length 0..256, uniform or alphabet-biased.
func Bytes(r *Rand) string {
	n := r.Intn(257)
	if r.Chance(1, 4) {
		n = r.Intn(24)
	}
	b := make([]byte, n)
	uniform := r.Chance(1, 3)
	for i := range b {
		if uniform {
			b[i] = byte(r.U64())
		} else {
			b[i] = Alphabet[r.Intn(len(Alphabet))]
		}
	}
	if r.Chance(1, 3) {
		return r.Pick(Headers) + string(b)
	}
	return string(b)
}
