// Package instr is the yield-point pass of C14: it copies the go-cvss package
// directories of a source tree to a scratch directory and inserts a call to
// verifYield() at the top of every for/range body and after every statement
// that contains a function call, in every non-test file. verifYield (one copy
// per package, added by the pass) decides from a seeded counter between doing
// nothing, runtime.Gosched() and a 1-50 microsecond sleep, and counts the yields
// taken in an expvar. The pass is generic: it knows nothing about the code.
package instr

import (
	"bytes"
	"fmt"
	"go/ast"
	"go/parser"
	"go/printer"
	"go/token"
	"os"
	"path/filepath"
	"strings"
)

const yieldSrc = `package %s

import (
	"expvar"
	"os"
	"runtime"
	"strconv"
	"sync/atomic"
	"time"
)

var (
	verifYieldCalls atomic.Uint64
	verifYieldTaken = expvar.NewInt("verifYield_%s")
	verifYieldSeed  = func() uint64 {
		n, _ := strconv.ParseUint(os.Getenv("VERIF_YIELD_SEED"), 10, 64)
		return n*0x9e3779b97f4a7c15 + 0x2545F4914F6CDD1D
	}()
)

func verifYield() {
	n := verifYieldCalls.Add(1)
	x := (n + verifYieldSeed) * 0xbf58476d1ce4e5b9
	x ^= x >> 29
	x *= 0x94d049bb133111eb
	x ^= x >> 32
	switch {
	case x%%1009 == 0:
		verifYieldTaken.Add(1)
		time.Sleep(time.Duration(1+x%%50) * time.Microsecond)
	case x%%7 == 0:
		verifYieldTaken.Add(1)
		runtime.Gosched()
	}
}
`

// Result reports what the pass did.
type Result struct {
	Files  int
	Points int
}

func yieldStmt() ast.Stmt {
	return &ast.ExprStmt{X: &ast.CallExpr{Fun: ast.NewIdent("verifYield")}}
}

func hasCall(n ast.Node) (call bool, terminating bool) {
	ast.Inspect(n, func(x ast.Node) bool {
		switch c := x.(type) {
		case *ast.FuncLit:
			return false
		case *ast.CallExpr:
			if id, ok := c.Fun.(*ast.Ident); ok {
				switch id.Name {
				case "panic":
					terminating = true
					return true
				case "verifYield", "len", "cap", "append", "make", "new", "uint8", "int", "float64", "string", "byte":
					return true
				}
			}
			call = true
		}
		return true
	})
	return
}

func instrumentList(list []ast.Stmt, pts *int) []ast.Stmt {
	var out []ast.Stmt
	for _, s := range list {
		out = append(out, s)
		switch st := s.(type) {
		case *ast.ExprStmt, *ast.AssignStmt, *ast.DeclStmt, *ast.IncDecStmt:
			if c, term := hasCall(st); c && !term {
				out = append(out, yieldStmt())
				*pts++
			}
		}
	}
	return out
}

func walk(n ast.Node, pts *int) {
	ast.Inspect(n, func(x ast.Node) bool {
		switch b := x.(type) {
		case *ast.ForStmt:
			b.Body.List = append([]ast.Stmt{yieldStmt()}, b.Body.List...)
			*pts++
		case *ast.RangeStmt:
			b.Body.List = append([]ast.Stmt{yieldStmt()}, b.Body.List...)
			*pts++
		}
		return true
	})
	ast.Inspect(n, func(x ast.Node) bool {
		switch b := x.(type) {
		case *ast.BlockStmt:
			b.List = instrumentList(b.List, pts)
		case *ast.CaseClause:
			b.Body = instrumentList(b.Body, pts)
		case *ast.CommClause:
			b.Body = instrumentList(b.Body, pts)
		}
		return true
	})
}

// Run copies the module at src to dst with every non-test Go file of every package
// directory instrumented (nested modules, VCS data, test data and resources are left out).
func Run(src, dst string) (Result, error) {
	var res Result
	for _, f := range []string{"go.mod", "go.sum"} {
		b, err := os.ReadFile(filepath.Join(src, f))
		if err != nil {
			return res, err
		}
		if err := os.WriteFile(filepath.Join(dst, f), b, 0o644); err != nil {
			return res, err
		}
	}
	skip := map[string]bool{".git": true, "testdata": true, "res": true, "vendor": true}
	var walk2 func(rel string) error
	walk2 = func(rel string) error {
		ents, err := os.ReadDir(filepath.Join(src, rel))
		if err != nil {
			return err
		}
		pkgName := ""
		for _, e := range ents {
			name := e.Name()
			if e.IsDir() {
				if skip[name] || strings.HasPrefix(name, ".") || strings.HasPrefix(name, "_") {
					continue
				}
				// a nested module (its own go.mod) is not part of this module
				if _, err := os.Stat(filepath.Join(src, rel, name, "go.mod")); err == nil {
					continue
				}
				if err := walk2(filepath.Join(rel, name)); err != nil {
					return err
				}
				continue
			}
			if !strings.HasSuffix(name, ".go") || strings.HasSuffix(name, "_test.go") {
				continue
			}
			fset := token.NewFileSet()
			f, err := parser.ParseFile(fset, filepath.Join(src, rel, name), nil, parser.ParseComments)
			if err != nil {
				return err
			}
			if err := os.MkdirAll(filepath.Join(dst, rel), 0o755); err != nil {
				return err
			}
			pkgName = f.Name.Name
			for _, d := range f.Decls {
				if fd, ok := d.(*ast.FuncDecl); ok && fd.Body != nil {
					walk(fd.Body, &res.Points)
				}
			}
			var buf bytes.Buffer
			if err := printer.Fprint(&buf, fset, f); err != nil {
				return err
			}
			if err := os.WriteFile(filepath.Join(dst, rel, name), buf.Bytes(), 0o644); err != nil {
				return err
			}
			res.Files++
		}
		if pkgName != "" && pkgName != "main" {
			tag := strings.Map(func(r rune) rune {
				if r >= 'a' && r <= 'z' || r >= 'A' && r <= 'Z' || r >= '0' && r <= '9' {
					return r
				}
				return '_'
			}, rel+"_"+pkgName)
			y := fmt.Sprintf(yieldSrc, pkgName, tag)
			if err := os.WriteFile(filepath.Join(dst, rel, "verif_yield_generated.go"), []byte(y), 0o644); err != nil {
				return err
			}
		}
		return nil
	}
	if err := walk2("."); err != nil {
		return res, err
	}
	if res.Files == 0 {
		return res, fmt.Errorf("no Go files found under %s", src)
	}
	return res, nil
}
