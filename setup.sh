#!/bin/bash
# Offline setup: builds the harness (plain, -race and -asan variants warm the Go build cache).
set -u
ROOT="$(cd "$(dirname "${BASH_SOURCE[0]}")" && pwd)"
export GOFLAGS=-mod=mod GOPROXY=off GOSUMDB=off GOTOOLCHAIN=local GOWORK=off
mkdir -p "$ROOT/.bin" "$ROOT/evidence" "$ROOT/replays"
cd "$ROOT/harness" || exit 1
go build -o "$ROOT/.bin/verif" ./cmd/verif || exit 1
go build -race -o "$ROOT/.bin/verif-race" ./cmd/verif || exit 1
echo "setup ok: $(go version)"
